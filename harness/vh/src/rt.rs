//! Harness runtime: PRNG, JSON, hook runtime (event log + schedule policies), report writer.
#![allow(dead_code)]

use std::cell::RefCell;
use std::collections::HashSet;
use std::fmt::Write as _;
use std::sync::atomic::{AtomicBool, AtomicU32, AtomicU64, Ordering};
use std::sync::{Arc, Mutex};
use std::time::{Duration, Instant};

// ------------------------------------------------------------------------------------------
// PRNG (xoshiro256**, splitmix64-seeded)
// ------------------------------------------------------------------------------------------
#[derive(Clone, Debug)]
pub struct Rng {
    s: [u64; 4],
}

fn splitmix(x: &mut u64) -> u64 {
    *x = x.wrapping_add(0x9E37_79B9_7F4A_7C15);
    let mut z = *x;
    z = (z ^ (z >> 30)).wrapping_mul(0xBF58_476D_1CE4_E5B9);
    z = (z ^ (z >> 27)).wrapping_mul(0x94D0_49BB_1331_11EB);
    z ^ (z >> 31)
}

impl Rng {
    pub fn new(seed: u64) -> Self {
        let mut x = seed ^ 0x5EED_5EED_5EED_5EED;
        Rng { s: [splitmix(&mut x), splitmix(&mut x), splitmix(&mut x), splitmix(&mut x)] }
    }
    /// Derive an independent stream.
    pub fn split(&mut self, tag: u64) -> Rng {
        Rng::new(self.next_u64() ^ tag.wrapping_mul(0xA24B_AED4_963E_E407))
    }
    pub fn next_u64(&mut self) -> u64 {
        let r = self.s[1].wrapping_mul(5).rotate_left(7).wrapping_mul(9);
        let t = self.s[1] << 17;
        self.s[2] ^= self.s[0];
        self.s[3] ^= self.s[1];
        self.s[1] ^= self.s[2];
        self.s[0] ^= self.s[3];
        self.s[2] ^= t;
        self.s[3] = self.s[3].rotate_left(45);
        r
    }
    pub fn below(&mut self, n: u64) -> u64 {
        if n == 0 {
            0
        } else {
            // multiply-shift; bias negligible for our n
            ((self.next_u64() as u128 * n as u128) >> 64) as u64
        }
    }
    pub fn usize(&mut self, n: usize) -> usize {
        self.below(n as u64) as usize
    }
    pub fn range(&mut self, lo: i64, hi_incl: i64) -> i64 {
        lo + self.below((hi_incl - lo + 1) as u64) as i64
    }
    pub fn chance(&mut self, num: u64, den: u64) -> bool {
        self.below(den) < num
    }
    pub fn pick<'a, T>(&mut self, xs: &'a [T]) -> &'a T {
        &xs[self.usize(xs.len())]
    }
    pub fn f64_unit(&mut self) -> f64 {
        (self.next_u64() >> 11) as f64 / (1u64 << 53) as f64
    }
    pub fn shuffle<T>(&mut self, xs: &mut [T]) {
        for i in (1..xs.len()).rev() {
            let j = self.usize(i + 1);
            xs.swap(i, j);
        }
    }
}

pub fn fnv(bytes: &[u8]) -> u64 {
    let mut h = 0xcbf2_9ce4_8422_2325u64;
    for b in bytes {
        h ^= *b as u64;
        h = h.wrapping_mul(0x0000_0100_0000_01B3);
    }
    h
}

pub fn mix(h: u64, v: u64) -> u64 {
    let mut x = h ^ v.wrapping_mul(0x9E37_79B9_7F4A_7C15);
    x = (x ^ (x >> 32)).wrapping_mul(0xD6E8_FEB8_6659_FD93);
    x ^ (x >> 29)
}

// ------------------------------------------------------------------------------------------
// JSON
// ------------------------------------------------------------------------------------------
#[derive(Clone, Debug)]
pub enum J {
    Null,
    B(bool),
    I(i64),
    U(u64),
    F(f64),
    S(String),
    A(Vec<J>),
    O(Vec<(String, J)>),
}

impl J {
    pub fn s(x: impl Into<String>) -> J {
        J::S(x.into())
    }
    pub fn obj() -> J {
        J::O(Vec::new())
    }
    pub fn set(mut self, k: &str, v: J) -> J {
        if let J::O(ref mut m) = self {
            if let Some(e) = m.iter_mut().find(|(kk, _)| kk == k) {
                e.1 = v;
            } else {
                m.push((k.to_string(), v));
            }
        }
        self
    }
    pub fn put(&mut self, k: &str, v: J) {
        if let J::O(ref mut m) = self {
            if let Some(e) = m.iter_mut().find(|(kk, _)| kk == k) {
                e.1 = v;
            } else {
                m.push((k.to_string(), v));
            }
        }
    }
    pub fn write(&self, out: &mut String) {
        match self {
            J::Null => out.push_str("null"),
            J::B(b) => out.push_str(if *b { "true" } else { "false" }),
            J::I(i) => {
                let _ = write!(out, "{}", i);
            }
            J::U(u) => {
                let _ = write!(out, "{}", u);
            }
            J::F(f) => {
                if f.is_finite() {
                    let _ = write!(out, "{:?}", f);
                } else {
                    let _ = write!(out, "\"{:?}\"", f);
                }
            }
            J::S(s) => {
                out.push('"');
                for c in s.chars() {
                    match c {
                        '"' => out.push_str("\\\""),
                        '\\' => out.push_str("\\\\"),
                        '\n' => out.push_str("\\n"),
                        '\r' => out.push_str("\\r"),
                        '\t' => out.push_str("\\t"),
                        c if (c as u32) < 0x20 => {
                            let _ = write!(out, "\\u{:04x}", c as u32);
                        }
                        c => out.push(c),
                    }
                }
                out.push('"');
            }
            J::A(a) => {
                out.push('[');
                for (i, x) in a.iter().enumerate() {
                    if i > 0 {
                        out.push(',');
                    }
                    x.write(out);
                }
                out.push(']');
            }
            J::O(m) => {
                out.push('{');
                for (i, (k, v)) in m.iter().enumerate() {
                    if i > 0 {
                        out.push(',');
                    }
                    J::S(k.clone()).write(out);
                    out.push(':');
                    v.write(out);
                }
                out.push('}');
            }
        }
    }
    pub fn to_string(&self) -> String {
        let mut s = String::new();
        self.write(&mut s);
        s
    }
}

impl From<&str> for J {
    fn from(s: &str) -> J {
        J::S(s.to_string())
    }
}
impl From<String> for J {
    fn from(s: String) -> J {
        J::S(s)
    }
}
impl From<u64> for J {
    fn from(s: u64) -> J {
        J::U(s)
    }
}
impl From<usize> for J {
    fn from(s: usize) -> J {
        J::U(s as u64)
    }
}
impl From<i32> for J {
    fn from(s: i32) -> J {
        J::I(s as i64)
    }
}
impl From<u32> for J {
    fn from(s: u32) -> J {
        J::U(s as u64)
    }
}
impl From<i64> for J {
    fn from(s: i64) -> J {
        J::I(s)
    }
}
impl From<f64> for J {
    fn from(s: f64) -> J {
        J::F(s)
    }
}
impl From<bool> for J {
    fn from(s: bool) -> J {
        J::B(s)
    }
}
impl<T: Into<J>> From<Vec<T>> for J {
    fn from(v: Vec<T>) -> J {
        J::A(v.into_iter().map(Into::into).collect())
    }
}

#[macro_export]
macro_rules! jo {
    ($($k:expr => $v:expr),* $(,)?) => {{
        #[allow(unused_mut)]
        let mut m: Vec<(String, $crate::rt::J)> = Vec::new();
        $( m.push(($k.to_string(), $crate::rt::J::from($v))); )*
        $crate::rt::J::O(m)
    }};
}

// ------------------------------------------------------------------------------------------
// Report (one per process / leg)
// ------------------------------------------------------------------------------------------
#[derive(Debug)]
pub struct Violation {
    pub sig: String,
    pub detail: J,
}

pub struct Report {
    pub property: String,
    pub leg: String,
    pub seed: u64,
    pub evaluations: u64,
    pub nontrivial: u64,
    pub distinct: HashSet<u64>,
    pub samples: Vec<J>,
    pub violations: Vec<Violation>,
    pub inconclusive: u64,
    pub inconclusive_notes: Vec<String>,
    pub extras: J,
    pub counters: Vec<(String, u64)>,
    start: Instant,
    max_samples: usize,
}

impl Report {
    pub fn new(property: &str, leg: &str, seed: u64) -> Self {
        Report {
            property: property.into(),
            leg: leg.into(),
            seed,
            evaluations: 0,
            nontrivial: 0,
            distinct: HashSet::new(),
            samples: Vec::new(),
            violations: Vec::new(),
            inconclusive: 0,
            inconclusive_notes: Vec::new(),
            extras: J::obj(),
            counters: Vec::new(),
            start: Instant::now(),
            max_samples: 4,
        }
    }
    /// Count one evaluated case; `desc` is the hash of its canonical descriptor,
    /// `nontrivial` whether it satisfies the property's non-triviality rule.
    pub fn case(&mut self, desc: u64, nontrivial: bool) {
        self.evaluations += 1;
        if nontrivial {
            self.nontrivial += 1;
            if self.distinct.len() < 4_000_000 {
                self.distinct.insert(desc);
            }
        }
    }
    pub fn want_sample(&self) -> bool {
        self.samples.len() < self.max_samples
    }
    pub fn sample(&mut self, j: J) {
        if self.samples.len() < self.max_samples {
            self.samples.push(j);
        }
    }
    pub fn violation(&mut self, sig: impl Into<String>, detail: J) {
        let sig = sig.into();
        // keep at most 25 witnesses per signature so that one frequent signature cannot crowd out another
        let same = self.violations.iter().filter(|v| v.sig == sig).count();
        if same < 25 && self.violations.len() < 600 {
            self.violations.push(Violation { sig, detail });
        }
    }
    pub fn inconclusive(&mut self, note: impl Into<String>) {
        self.inconclusive += 1;
        if self.inconclusive_notes.len() < 20 {
            self.inconclusive_notes.push(note.into());
        }
    }
    pub fn count(&mut self, k: &str, n: u64) {
        if let Some(e) = self.counters.iter_mut().find(|(kk, _)| kk == k) {
            e.1 += n;
        } else {
            self.counters.push((k.to_string(), n));
        }
    }
    pub fn elapsed(&self) -> f64 {
        self.start.elapsed().as_secs_f64()
    }
    pub fn merge(&mut self, other: Report) {
        self.evaluations += other.evaluations;
        self.nontrivial += other.nontrivial;
        for d in other.distinct {
            if self.distinct.len() < 4_000_000 {
                self.distinct.insert(d);
            }
        }
        for s in other.samples {
            self.sample(s);
        }
        for v in other.violations {
            self.violation(v.sig, v.detail);
        }
        self.inconclusive += other.inconclusive;
        for n in other.inconclusive_notes {
            if self.inconclusive_notes.len() < 20 {
                self.inconclusive_notes.push(n);
            }
        }
        for (k, n) in other.counters {
            self.count(&k, n);
        }
    }
    pub fn to_json(&self) -> J {
        let mut viol = Vec::new();
        for v in &self.violations {
            viol.push(jo! {"sig" => v.sig.clone(), "detail" => v.detail.clone()});
        }
        let mut counters = J::obj();
        for (k, n) in &self.counters {
            counters.put(k, J::U(*n));
        }
        // distinct hashes: full list (driver unions across shards), capped
        let mut dl: Vec<J> = Vec::new();
        for (i, d) in self.distinct.iter().enumerate() {
            if i >= 300_000 {
                break;
            }
            dl.push(J::U(*d >> 11)); // 53 bits, exact in any JSON reader
        }
        jo! {
            "property" => self.property.clone(),
            "leg" => self.leg.clone(),
            "seed" => self.seed,
            "evaluations" => self.evaluations,
            "nontrivial" => self.nontrivial,
            "distinct_count" => self.distinct.len(),
            "distinct_hashes" => J::A(dl),
            "samples" => J::A(self.samples.clone()),
            "violations" => J::A(viol),
            "inconclusive" => self.inconclusive,
            "inconclusive_notes" => J::A(self.inconclusive_notes.iter().map(|s| J::S(s.clone())).collect()),
            "counters" => counters,
            "extras" => self.extras.clone(),
            "wall_s" => self.elapsed(),
        }
    }
    pub fn write_to(&self, path: &str) {
        let s = self.to_json().to_string();
        if path == "-" {
            println!("{}", s);
        } else {
            std::fs::write(path, s).expect("write report");
        }
    }
}

// ------------------------------------------------------------------------------------------
// Hook runtime
// ------------------------------------------------------------------------------------------
pub const POINTS: &[&str] = &[
    "cell.set.after_cas",
    "cell.set.after_write",
    "cell.load.after_state",
    "key.hash.between_stores",
    "bucket.block_push.after_claim",
    "bucket.block_push.after_write",
    "bucket.push.after_tail_load",
    "bucket.push.after_block_cas",
    "bucket.push.after_link",
    "bucket.data.after_tail_load",
    "bucket.data.spin",
    "bucket.data.after_quiesce",
    "bucket.clear.after_tail_load",
    "bucket.clear.after_detach",
    "bucket.clear.spin",
    "bucket.clear.after_quiesce",
    "bucket.clear.after_read",
    "bucket.block.drop",
    "registry.goc.between_locks",
    "reservoir.push.after_claim",
    "reservoir.push.after_side_load",
    "reservoir.consume.after_swap",
    "reservoir.drain.before_reset",
    "recoverable.into_inner.spin",
    "recoverable.after_upgrade",
    "dsd.counter.flush.after_current_load",
    "dsd.counter.flush.after_last_swap",
    "dsd.counter.flush.after_updates_swap",
    "dsd.counter.inc.after_mode_store",
    "dsd.counter.inc.after_current_add",
    "dsd.counter.abs.after_mode_swap",
    "dsd.counter.abs.after_last_store",
    "dsd.counter.abs.after_current_store",
    "dsd.gauge.flush.after_value_load",
    "dsd.gauge.set.after_value_store",
    "cell.set.after_publish",
    // harness-side pseudo points
    "@start",
    "@done",
    "@op",
];
pub const NPOINTS: usize = 40;
pub const NROLES: usize = 16;

pub fn point_id(name: &str) -> usize {
    for (i, p) in POINTS.iter().enumerate() {
        if *p == name {
            return i;
        }
    }
    NPOINTS - 1
}

/// "role `role`, when it passes `point` for the `nth` time (1-based), waits until role
/// `until_role` has passed `until_point` at least `until_nth` times".
#[derive(Clone, Debug)]
pub struct Rule {
    pub role: u8,
    pub point: usize,
    pub nth: u32,
    pub until_role: u8,
    pub until_point: usize,
    pub until_nth: u32,
}

impl Rule {
    pub fn new(role: u8, point: &str, nth: u32, until_role: u8, until_point: &str, until_nth: u32) -> Rule {
        Rule { role, point: point_id(point), nth, until_role, until_point: point_id(until_point), until_nth }
    }
    pub fn to_json(&self) -> J {
        jo! {"role" => self.role as u64, "point" => POINTS[self.point], "nth" => self.nth as u64,
        "until_role" => self.until_role as u64, "until_point" => POINTS[self.until_point], "until_nth" => self.until_nth as u64}
    }
}

#[derive(Clone, Debug)]
pub enum Policy {
    /// log only
    Off,
    /// with probability num/den hold until `hold` further events were logged by anyone (bounded)
    Random { num: u32, den: u32, hold: u32 },
    /// directed gates
    Gate(Vec<Rule>),
    /// gates + random holds elsewhere
    GateRandom(Vec<Rule>, u32, u32, u32),
}

#[derive(Clone, Copy, Debug)]
pub struct Ev {
    pub seq: u64,
    pub role: u8,
    pub point: u8,
    pub arg: u32,
}

pub struct Ctx {
    pub seq: AtomicU64,
    counts: Vec<AtomicU32>, // NROLES * NPOINTS
    pub policy: Policy,
    pub abort: AtomicBool,
    pub expired: AtomicU32,
    pub unsat: AtomicU32,
    pub holds: AtomicU32,
    pub log: bool,
    events: Mutex<Vec<Ev>>,
    pub gate_timeout: Duration,
}

impl Ctx {
    pub fn new(policy: Policy, log: bool) -> Arc<Ctx> {
        let mut counts = Vec::with_capacity(NROLES * NPOINTS);
        for _ in 0..NROLES * NPOINTS {
            counts.push(AtomicU32::new(0));
        }
        Arc::new(Ctx {
            seq: AtomicU64::new(1),
            counts,
            policy,
            abort: AtomicBool::new(false),
            expired: AtomicU32::new(0),
            unsat: AtomicU32::new(0),
            holds: AtomicU32::new(0),
            log,
            events: Mutex::new(Vec::new()),
            gate_timeout: Duration::from_millis(if cfg!(miri) { 50 } else { 1500 }),
        })
    }
    /// Same, with a longer watchdog for gates that wait on something the code under test may legitimately take long over.
    pub fn with_gate_timeout(policy: Policy, log: bool, timeout: Duration) -> Arc<Ctx> {
        let mut c = Ctx::new(policy, log);
        Arc::get_mut(&mut c).expect("fresh").gate_timeout = timeout;
        c
    }
    pub fn count(&self, role: u8, point: usize) -> u32 {
        self.counts[role as usize * NPOINTS + point].load(Ordering::SeqCst)
    }
    pub fn stamp(&self) -> u64 {
        self.seq.fetch_add(1, Ordering::SeqCst)
    }
    pub fn take_events(&self) -> Vec<Ev> {
        let mut v = std::mem::take(&mut *self.events.lock().unwrap());
        v.sort_by_key(|e| e.seq);
        v
    }
    /// Hash of the global-order sequence of (role, point) over the given points.
    pub fn signature(events: &[Ev], only: &dyn Fn(u8) -> bool) -> u64 {
        let mut h = 0x1234_5678u64;
        for e in events {
            if only(e.point) {
                h = mix(h, ((e.role as u64) << 8) | e.point as u64);
            }
        }
        h
    }
}

struct Tl {
    ctx: Arc<Ctx>,
    role: u8,
    rng: Rng,
    buf: Vec<Ev>,
}

thread_local! {
    static TL: RefCell<Option<Tl>> = const { RefCell::new(None) };
}

static MIRI_YIELD: AtomicBool = AtomicBool::new(false);

/// Install the process-wide hook callback (idempotent).
pub fn install_hook() {
    metrics::verif::set_hook(hook);
}

/// Under Miri (and for sanitizer volume runs) hooks only yield, with no shared monitor state.
pub fn set_yield_only(on: bool) {
    MIRI_YIELD.store(on, Ordering::Relaxed);
}

/// Bind the current thread to an execution context with the given role.
pub fn enter(ctx: &Arc<Ctx>, role: u8, seed: u64) {
    TL.with(|t| {
        *t.borrow_mut() = Some(Tl { ctx: ctx.clone(), role, rng: Rng::new(seed), buf: Vec::new() });
    });
}

/// Unbind; flushes this thread's event buffer into the context.
pub fn leave() {
    TL.with(|t| {
        if let Some(tl) = t.borrow_mut().take() {
            if !tl.buf.is_empty() {
                tl.ctx.events.lock().unwrap().extend(tl.buf);
            }
        }
    });
}

/// A harness-side pseudo point (e.g. "@done").
pub fn mark(name: &'static str, arg: usize) {
    hook(name, arg);
}

/// Global-order stamp for client-boundary call/return records.
pub fn stamp() -> u64 {
    TL.with(|t| match t.borrow().as_ref() {
        Some(tl) => tl.ctx.stamp(),
        None => 0,
    })
}

thread_local! {
    static YIELD_RNG: std::cell::Cell<u64> = const { std::cell::Cell::new(0x9E3779B97F4A7C15) };
}

fn hook(id: &'static str, arg: usize) {
    if MIRI_YIELD.load(Ordering::Relaxed) {
        // no shared state: cheap thread-local xorshift decides whether to yield
        let y = YIELD_RNG.with(|c| {
            let mut x = c.get();
            x ^= x << 13;
            x ^= x >> 7;
            x ^= x << 17;
            c.set(x);
            x
        });
        if y & 3 == 0 {
            std::thread::yield_now();
        }
        return;
    }
    // Re-entrancy / TLS-destruction safe access.
    let r = TL.try_with(|t| {
        let mut b = match t.try_borrow_mut() {
            Ok(b) => b,
            Err(_) => return,
        };
        let tl = match b.as_mut() {
            Some(tl) => tl,
            None => return,
        };
        let ctx = tl.ctx.clone();
        let pid = point_id(id);
        let role = tl.role;
        let seq = ctx.seq.fetch_add(1, Ordering::SeqCst);
        let n = ctx.counts[role as usize * NPOINTS + pid].fetch_add(1, Ordering::SeqCst) + 1;
        if ctx.log {
            tl.buf.push(Ev { seq, role, point: pid as u8, arg: arg as u32 });
        }
        let (rules, rnd): (Option<&Vec<Rule>>, Option<(u32, u32, u32)>) = match &ctx.policy {
            Policy::Off => (None, None),
            Policy::Random { num, den, hold } => (None, Some((*num, *den, *hold))),
            Policy::Gate(r) => (Some(r), None),
            Policy::GateRandom(r, a, b2, c) => (Some(r), Some((*a, *b2, *c))),
        };
        let mut gated = false;
        if let Some(rules) = rules {
            for r in rules {
                if r.role == role && r.point == pid && r.nth == n {
                    gated = true;
                    let deadline = Instant::now() + ctx.gate_timeout;
                    let mut spins = 0u32;
                    loop {
                        if ctx.count(r.until_role, r.until_point) >= r.until_nth {
                            break;
                        }
                        if ctx.abort.load(Ordering::SeqCst) {
                            break;
                        }
                        // the peer already finished without reaching the point: schedule unsatisfiable, not a verdict
                        if ctx.count(r.until_role, point_id("@done")) >= 1 {
                            ctx.unsat.fetch_add(1, Ordering::SeqCst);
                            break;
                        }
                        spins += 1;
                        if spins % 64 == 0 && Instant::now() > deadline {
                            ctx.expired.fetch_add(1, Ordering::SeqCst);
                            break;
                        }
                        std::thread::yield_now();
                    }
                }
            }
        }
        if !gated {
            if let Some((num, den, hold)) = rnd {
                if tl.rng.below(den as u64) < num as u64 {
                    ctx.holds.fetch_add(1, Ordering::Relaxed);
                    let target = seq + 1 + hold as u64;
                    let mut spins = 0u32;
                    while ctx.seq.load(Ordering::SeqCst) < target && spins < 300 {
                        if ctx.abort.load(Ordering::SeqCst) {
                            break;
                        }
                        spins += 1;
                        std::thread::yield_now();
                    }
                }
            }
        }
    });
    let _ = r;
}

/// Run `f` on a new thread bound to `ctx` with `role`; the thread marks "@done" when f returns.
pub fn spawn_role<T: Send + 'static>(
    ctx: &Arc<Ctx>,
    role: u8,
    seed: u64,
    f: impl FnOnce() -> T + Send + 'static,
) -> std::thread::JoinHandle<T> {
    let ctx = ctx.clone();
    std::thread::spawn(move || {
        enter(&ctx, role, seed);
        mark("@start", 0);
        let r = f();
        mark("@done", 0);
        leave();
        r
    })
}

// ------------------------------------------------------------------------------------------
// Command line
// ------------------------------------------------------------------------------------------
#[derive(Clone, Debug)]
pub struct Args {
    pub prop: String,
    pub leg: String,
    pub tier: String,
    pub seed: u64,
    pub out: String,
    pub scale: f64,
    pub shard: u64,
    pub shards: u64,
    pub replay: Option<String>,
    pub extra: Vec<(String, String)>,
}

impl Args {
    pub fn parse() -> Args {
        let mut a = Args {
            prop: String::new(),
            leg: "native".into(),
            tier: "quick".into(),
            seed: 1,
            out: "-".into(),
            scale: 1.0,
            shard: 0,
            shards: 1,
            replay: None,
            extra: Vec::new(),
        };
        let argv: Vec<String> = std::env::args().collect();
        let mut i = 1;
        while i < argv.len() {
            let k = argv[i].as_str();
            let v = argv.get(i + 1).cloned();
            match k {
                "--leg" => a.leg = v.unwrap(),
                "--tier" => a.tier = v.unwrap(),
                "--seed" => a.seed = v.unwrap().parse().unwrap_or(1),
                "--out" => a.out = v.unwrap(),
                "--scale" => a.scale = v.unwrap().parse().unwrap_or(1.0),
                "--shard" => a.shard = v.unwrap().parse().unwrap_or(0),
                "--shards" => a.shards = v.unwrap().parse().unwrap_or(1),
                "--replay" => a.replay = v,
                _ if k.starts_with("--") => a.extra.push((k[2..].to_string(), v.unwrap_or_default())),
                _ => {
                    a.prop = k.to_string();
                    i += 1;
                    continue;
                }
            }
            i += 2;
        }
        a
    }
    pub fn thorough(&self) -> bool {
        self.tier == "thorough"
    }
    /// quick/thorough budget helper, scaled and divided across shards.
    pub fn budget(&self, quick: u64, thorough: u64) -> u64 {
        let b = if self.thorough() { thorough } else { quick } as f64 * self.scale;
        ((b / self.shards as f64).ceil() as u64).max(1)
    }
    pub fn get(&self, k: &str) -> Option<&str> {
        self.extra.iter().find(|(kk, _)| kk == k).map(|(_, v)| v.as_str())
    }
    pub fn shard_seed(&self) -> u64 {
        mix(self.seed, self.shard.wrapping_mul(0x51_7C_C1_B7_27_22_0A_95) ^ fnv(self.leg.as_bytes()))
    }
}

/// Run a closure catching panics from repo code; returns Err(message) on panic.
pub fn catch<T>(f: impl FnOnce() -> T) -> Result<T, String> {
    match std::panic::catch_unwind(std::panic::AssertUnwindSafe(f)) {
        Ok(v) => Ok(v),
        Err(e) => {
            let msg = if let Some(s) = e.downcast_ref::<&str>() {
                s.to_string()
            } else if let Some(s) = e.downcast_ref::<String>() {
                s.clone()
            } else {
                "<non-string panic>".to_string()
            };
            Err(msg)
        }
    }
}

/// Silence the default panic printer (we catch panics from repo code deliberately).
pub fn quiet_panics() {
    std::panic::set_hook(Box::new(|_| {}));
}
