//! Logging doubles: Recorder / CounterFn / GaugeFn / HistogramFn that record every call.
#![allow(dead_code)]

use metrics::{
    Counter, CounterFn, Gauge, GaugeFn, Histogram, HistogramFn, Key, KeyName, Level, Metadata, Recorder, SharedString,
    Unit,
};
use std::sync::atomic::{AtomicBool, AtomicU64, Ordering};
use std::sync::{Arc, Mutex};

use crate::rt::J;

#[derive(Clone, Debug, PartialEq, Eq, Hash, PartialOrd, Ord)]
pub struct KeyDesc {
    pub name: String,
    pub labels: Vec<(String, String)>,
}

impl KeyDesc {
    pub fn of(k: &Key) -> KeyDesc {
        KeyDesc {
            name: k.name().to_string(),
            labels: k.labels().map(|l| (l.key().to_string(), l.value().to_string())).collect(),
        }
    }
    pub fn new(name: &str, labels: &[(&str, &str)]) -> KeyDesc {
        KeyDesc { name: name.into(), labels: labels.iter().map(|(a, b)| (a.to_string(), b.to_string())).collect() }
    }
    pub fn sorted(&self) -> KeyDesc {
        let mut l = self.labels.clone();
        l.sort();
        KeyDesc { name: self.name.clone(), labels: l }
    }
    pub fn to_json(&self) -> J {
        jo! {"name" => self.name.clone(), "labels" => J::A(self.labels.iter().map(|(k,v)| J::A(vec![J::s(k.clone()), J::s(v.clone())])).collect())}
    }
    pub fn to_key(&self) -> Key {
        Key::from_parts(
            self.name.clone(),
            self.labels.iter().map(|(k, v)| metrics::Label::new(k.clone(), v.clone())).collect::<Vec<_>>(),
        )
    }
}

#[derive(Clone, Copy, Debug, PartialEq, Eq, Hash, PartialOrd, Ord)]
pub enum Kind {
    Counter,
    Gauge,
    Histogram,
}

impl Kind {
    pub fn name(&self) -> &'static str {
        match self {
            Kind::Counter => "counter",
            Kind::Gauge => "gauge",
            Kind::Histogram => "histogram",
        }
    }
    pub const ALL: [Kind; 3] = [Kind::Counter, Kind::Gauge, Kind::Histogram];
}

#[derive(Clone, Debug, PartialEq)]
pub enum Op {
    Describe { kind: Kind, name: String, unit: Option<Unit>, desc: String },
    Register { kind: Kind, key: KeyDesc, target: String, level: u8, module_path: Option<String>, handle: u64 },
    CounterInc { handle: u64, v: u64 },
    CounterAbs { handle: u64, v: u64 },
    GaugeInc { handle: u64, v: u64 },
    GaugeDec { handle: u64, v: u64 },
    GaugeSet { handle: u64, v: u64 },
    HistRecord { handle: u64, v: u64 },
    HistRecordMany { handle: u64, v: u64, n: usize },
}

impl Op {
    pub fn to_json(&self) -> J {
        J::s(format!("{:?}", self))
    }
}

pub fn level_num(l: &Level) -> u8 {
    if *l == Level::TRACE {
        0
    } else if *l == Level::DEBUG {
        1
    } else if *l == Level::INFO {
        2
    } else if *l == Level::WARN {
        3
    } else {
        4
    }
}

#[derive(Clone, Debug)]
pub struct Rec {
    pub rec: u32,
    pub thread: u64,
    pub in_scope: bool,
    pub op: Op,
}

pub type Log = Arc<Mutex<Vec<Rec>>>;

static NEXT_HANDLE: AtomicU64 = AtomicU64::new(1);

thread_local! {
    pub static THREAD_TAG: std::cell::Cell<u64> = const { std::cell::Cell::new(0) };
}

pub fn set_thread_tag(t: u64) {
    THREAD_TAG.with(|c| c.set(t));
}

/// A recorder that logs every call with its own id. `in_scope` is set/cleared by the harness
/// (scope model); a call arriving while it is false is logged with in_scope=false.
pub struct LogRecorder {
    pub id: u32,
    pub log: Log,
    pub in_scope: Arc<AtomicBool>,
    pub canary: [u64; 4],
    pub record_many_override: bool,
}

pub const CANARY: u64 = 0xC0FF_EE00_DEAD_BEEF;

impl LogRecorder {
    pub fn new(id: u32, log: &Log) -> LogRecorder {
        LogRecorder {
            id,
            log: log.clone(),
            in_scope: Arc::new(AtomicBool::new(true)),
            canary: [CANARY, CANARY ^ id as u64, !CANARY, id as u64],
            record_many_override: false,
        }
    }
    pub fn canary_ok(&self) -> bool {
        self.canary[0] == CANARY
            && self.canary[1] == CANARY ^ self.id as u64
            && self.canary[2] == !CANARY
            && self.canary[3] == self.id as u64
    }
    fn push(&self, op: Op) {
        let thread = THREAD_TAG.with(|c| c.get());
        let in_scope = self.in_scope.load(Ordering::SeqCst) && self.canary_ok();
        self.log.lock().unwrap().push(Rec { rec: self.id, thread, in_scope, op });
    }
    fn handle(&self, kind: Kind) -> Arc<LogHandle> {
        Arc::new(LogHandle {
            id: NEXT_HANDLE.fetch_add(1, Ordering::Relaxed),
            rec: self.id,
            kind,
            log: self.log.clone(),
            in_scope: self.in_scope.clone(),
            record_many_override: self.record_many_override,
        })
    }
}

pub struct LogHandle {
    pub id: u64,
    pub rec: u32,
    pub kind: Kind,
    pub log: Log,
    pub in_scope: Arc<AtomicBool>,
    pub record_many_override: bool,
}

impl LogHandle {
    fn push(&self, op: Op) {
        let thread = THREAD_TAG.with(|c| c.get());
        let in_scope = self.in_scope.load(Ordering::SeqCst);
        self.log.lock().unwrap().push(Rec { rec: self.rec, thread, in_scope, op });
    }
}

impl CounterFn for LogHandle {
    fn increment(&self, v: u64) {
        self.push(Op::CounterInc { handle: self.id, v });
    }
    fn absolute(&self, v: u64) {
        self.push(Op::CounterAbs { handle: self.id, v });
    }
}
impl GaugeFn for LogHandle {
    fn increment(&self, v: f64) {
        self.push(Op::GaugeInc { handle: self.id, v: v.to_bits() });
    }
    fn decrement(&self, v: f64) {
        self.push(Op::GaugeDec { handle: self.id, v: v.to_bits() });
    }
    fn set(&self, v: f64) {
        self.push(Op::GaugeSet { handle: self.id, v: v.to_bits() });
    }
}
impl HistogramFn for LogHandle {
    fn record(&self, v: f64) {
        self.push(Op::HistRecord { handle: self.id, v: v.to_bits() });
    }
    fn record_many(&self, v: f64, n: usize) {
        if self.record_many_override {
            self.push(Op::HistRecordMany { handle: self.id, v: v.to_bits(), n });
        } else {
            for _ in 0..n {
                self.record(v);
            }
        }
    }
}

impl Recorder for LogRecorder {
    fn describe_counter(&self, key: KeyName, unit: Option<Unit>, description: SharedString) {
        self.push(Op::Describe { kind: Kind::Counter, name: key.as_str().to_string(), unit, desc: description.to_string() });
    }
    fn describe_gauge(&self, key: KeyName, unit: Option<Unit>, description: SharedString) {
        self.push(Op::Describe { kind: Kind::Gauge, name: key.as_str().to_string(), unit, desc: description.to_string() });
    }
    fn describe_histogram(&self, key: KeyName, unit: Option<Unit>, description: SharedString) {
        self.push(Op::Describe {
            kind: Kind::Histogram,
            name: key.as_str().to_string(),
            unit,
            desc: description.to_string(),
        });
    }
    fn register_counter(&self, key: &Key, m: &Metadata<'_>) -> Counter {
        let h = self.handle(Kind::Counter);
        self.push(Op::Register {
            kind: Kind::Counter,
            key: KeyDesc::of(key),
            target: m.target().to_string(),
            level: level_num(m.level()),
            module_path: m.module_path().map(|s| s.to_string()),
            handle: h.id,
        });
        Counter::from_arc(h)
    }
    fn register_gauge(&self, key: &Key, m: &Metadata<'_>) -> Gauge {
        let h = self.handle(Kind::Gauge);
        self.push(Op::Register {
            kind: Kind::Gauge,
            key: KeyDesc::of(key),
            target: m.target().to_string(),
            level: level_num(m.level()),
            module_path: m.module_path().map(|s| s.to_string()),
            handle: h.id,
        });
        Gauge::from_arc(h)
    }
    fn register_histogram(&self, key: &Key, m: &Metadata<'_>) -> Histogram {
        let h = self.handle(Kind::Histogram);
        self.push(Op::Register {
            kind: Kind::Histogram,
            key: KeyDesc::of(key),
            target: m.target().to_string(),
            level: level_num(m.level()),
            module_path: m.module_path().map(|s| s.to_string()),
            handle: h.id,
        });
        Histogram::from_arc(h)
    }
}

pub fn new_log() -> Log {
    Arc::new(Mutex::new(Vec::new()))
}

pub fn take_log(l: &Log) -> Vec<Rec> {
    std::mem::take(&mut *l.lock().unwrap())
}
