//! C17 — span fields become labels with metric > inner span > outer span precedence.
use crate::doubles::{self, KeyDesc, LogRecorder, Op};
use crate::rt::{self, fnv, mix, Args, Report, Rng, J};
use metrics::{Key, KeyName, Label, Level as MLevel, Metadata, Recorder};
use metrics_tracing_context::{LabelFilter, MetricsLayer, TracingContextLayer};
use metrics_util::layers::Layer;
use std::collections::BTreeMap;
use tracing::field::Empty;
use tracing::{span, Dispatch, Level, Span};
use tracing_subscriber::layer::SubscriberExt;

static MD: Metadata<'static> = Metadata::new("c17", MLevel::INFO, None);

const WIDE_A: &[&str] = &["a00", "a01", "a02", "a03", "a04", "a05", "a06", "a07", "a08", "a09", "a10", "a11", "a12", "a13", "a14", "a15", "a16", "a17", "a18", "a19", "a20", "a21", "a22", "a23", "a24", "a25", "a26", "a27", "a28", "a29"];
const WIDE_B: &[&str] = &["b00", "b01", "b02", "b03", "b04", "b05", "b06", "b07", "b08", "b09", "b10", "b11", "b12", "b13", "b14", "b15", "b16", "b17", "b18", "b19", "b20", "b21", "b22", "b23", "b24", "b25", "b26", "b27", "b28", "b29"];
/// numeric field values, including ones that do not fit the signed types
const NUMS: &[u64] = &[0, 1, 2, 3, 4, u64::MAX, (i64::MAX as u64) + 1, 0xdead_beef_0000_0001, i64::MAX as u64];

const VALS: &[&str] = &["", "ferris", "v2", "é", "a b"];

/// Ordered label map of the reference model (insertion order as an IndexMap keeps it).
#[derive(Clone, Debug, Default, PartialEq)]
struct LMap(Vec<(String, String)>);
impl LMap {
    fn insert(&mut self, k: &str, v: String) {
        if let Some(e) = self.0.iter_mut().find(|(kk, _)| kk == k) {
            e.1 = v;
        } else {
            self.0.push((k.to_string(), v));
        }
    }
    fn or_insert(&mut self, k: &str, v: String) {
        if !self.0.iter().any(|(kk, _)| kk == k) {
            self.0.push((k.to_string(), v));
        }
    }
}

#[derive(Clone, Copy, Debug, PartialEq)]
enum Parent {
    Contextual,
    Explicit(usize),
    Root,
}

/// Create a span of the given compiled shape; returns the span and the fields it has values for at creation.
fn make_span(shape: u8, parent: Option<Option<&Span>>, v1: &str, n: u64, flag: bool) -> (Span, Vec<(&'static str, String)>) {
    macro_rules! mk {
        ($name:literal, $($fields:tt)*) => {
            match parent {
                None => span!(Level::INFO, $name, $($fields)*),
                Some(Some(p)) => span!(parent: p, Level::INFO, $name, $($fields)*),
                Some(None) => span!(parent: None, Level::INFO, $name, $($fields)*),
            }
        };
    }
    match shape {
        0 => (mk!("s_user_n", user = v1, n = n), vec![("user", v1.to_string()), ("n", n.to_string())]),
        1 => (mk!("s_user_service", user = v1, service = "svc"), vec![("user", v1.to_string()), ("service", "svc".to_string())]),
        2 => (mk!("s_empty",), vec![]),
        3 => (mk!("s_late", user = Empty, late = Empty, fixed = "f"), vec![("fixed", "f".to_string())]),
        4 => {
            let d = vec![n, n.wrapping_add(1)];
            (mk!("s_types", flag = flag, dbg = ?d, disp = %v1, signed = (n as i64).wrapping_neg(), fl = 1.5f64), vec![("flag", flag.to_string()), ("dbg", format!("{:?}", d)), ("disp", v1.to_string()), ("signed", (n as i64).wrapping_neg().to_string()), ("fl", format!("{:?}", 1.5f64))])
        }
        5 => (mk!("s_service_only", service = v1), vec![("service", v1.to_string())]),
        // wide spans: nested, they carry 60 labels (label maps beyond the pooled size)
        7 => (mk!("s_wide_a", a00 = v1, a01 = v1, a02 = v1, a03 = v1, a04 = v1, a05 = v1, a06 = v1, a07 = v1, a08 = v1, a09 = v1, a10 = v1, a11 = v1, a12 = v1, a13 = v1, a14 = v1, a15 = v1, a16 = v1, a17 = v1, a18 = v1, a19 = v1, a20 = v1, a21 = v1, a22 = v1, a23 = v1, a24 = v1, a25 = v1, a26 = v1, a27 = v1, a28 = v1, a29 = v1), WIDE_A.iter().map(|k| (*k, v1.to_string())).collect()),
        8 => (mk!("s_wide_b", b00 = v1, b01 = v1, b02 = v1, b03 = v1, b04 = v1, b05 = v1, b06 = v1, b07 = v1, b08 = v1, b09 = v1, b10 = v1, b11 = v1, b12 = v1, b13 = v1, b14 = v1, b15 = v1, b16 = v1, b17 = v1, b18 = v1, b19 = v1, b20 = v1, b21 = v1, b22 = v1, b23 = v1, b24 = v1, b25 = v1, b26 = v1, b27 = v1, b28 = v1, b29 = v1), WIDE_B.iter().map(|k| (*k, v1.to_string())).collect()),
        _ => (mk!("s_tenant_user", tenant = v1, user = Empty), vec![("tenant", v1.to_string())]),
    }
}

fn record_field(sp: &Span, field: u8, v: &str, n: u64) -> Option<(&'static str, String)> {
    // recording a field the span's callsite does not declare is a no-op in tracing; the model mirrors that through `declared`
    match field {
        0 => {
            sp.record("user", v);
            Some(("user", v.to_string()))
        }
        1 => {
            sp.record("late", n);
            Some(("late", n.to_string()))
        }
        2 => {
            sp.record("service", v);
            Some(("service", v.to_string()))
        }
        _ => {
            sp.record("n", n);
            Some(("n", n.to_string()))
        }
    }
}

fn declared(shape: u8) -> &'static [&'static str] {
    match shape {
        0 => &["user", "n"],
        1 => &["user", "service"],
        2 => &[],
        3 => &["user", "late", "fixed"],
        4 => &["flag", "dbg", "disp", "signed", "fl"],
        5 => &["service"],
        7 => WIDE_A,
        8 => WIDE_B,
        _ => &["tenant", "user"],
    }
}

#[derive(Clone, Debug)]
enum S {
    New { shape: u8, parent: Parent, v: usize, n: u64, flag: bool },
    Record { span: usize, field: u8, v: usize, n: u64 },
    Emit { kind: u8, labels: Vec<(String, String)> },
    In { span: usize, body: Vec<S> },
}

fn gen_script(r: &mut Rng, depth: u32, len: usize, nspans: &mut usize) -> Vec<S> {
    let mut out = Vec::new();
    for _ in 0..len {
        let c = r.below(10);
        out.push(match c {
            0 | 1 | 2 => {
                let parent = if *nspans > 0 && r.chance(1, 4) { Parent::Explicit(r.usize(*nspans)) } else if r.chance(1, 8) { Parent::Root } else { Parent::Contextual };
                *nspans += 1;
                S::New { shape: r.below(9) as u8, parent, v: r.usize(VALS.len()), n: *r.pick(NUMS), flag: r.chance(1, 2) }
            }
            3 | 4 if *nspans > 0 => S::Record { span: r.usize(*nspans), field: r.below(4) as u8, v: r.usize(VALS.len()), n: if r.chance(1, 2) { 10 + r.below(5) } else { *r.pick(NUMS) } },
            5 | 6 if *nspans > 0 && depth > 0 => {
                let sp = r.usize(*nspans);
                let l = 1 + r.usize(5);
                S::In { span: sp, body: gen_script(r, depth - 1, l, nspans) }
            }
            _ => {
                let pool = ["user", "service", "own", "n", "tenant", "x"];
                let mut labels = Vec::new();
                let cnt = r.usize(3);
                let mut used = Vec::new();
                for _ in 0..cnt {
                    let k = *r.pick(&pool);
                    if !used.contains(&k) {
                        used.push(k);
                        labels.push((k.to_string(), format!("m_{}", r.pick(VALS))));
                    }
                }
                S::Emit { kind: r.below(3) as u8, labels }
            }
        });
    }
    out
}

#[derive(Clone)]
enum Filt {
    All,
    Allow(Vec<String>),
    Custom, // admits labels whose value is non-empty and whose name is not "service"
}

#[derive(Clone)]
struct CustomFilter;
impl LabelFilter for CustomFilter {
    fn should_include_label(&self, _name: &KeyName, label: &Label) -> bool {
        !label.value().is_empty() && label.key() != "service"
    }
}

fn admits(f: &Filt, k: &str, v: &str) -> bool {
    match f {
        Filt::All => true,
        Filt::Allow(a) => a.iter().any(|x| x == k),
        Filt::Custom => !v.is_empty() && k != "service",
    }
}

struct Interp<'a> {
    spans: Vec<(Span, u8, LMap)>,
    stack: Vec<usize>, // entered spans (innermost last)
    rec: &'a dyn Recorder,
    log: &'a doubles::Log,
    filt: &'a Filt,
    viol: Vec<(String, J)>,
    trace: Vec<String>,
    emits: u64,
    nontrivial: bool,
    thread_tag: &'static str,
}

impl<'a> Interp<'a> {
    fn run(&mut self, script: &[S]) {
        for op in script {
            match op {
                S::New { shape, parent, v, n, flag } => {
                    let pidx = match parent {
                        Parent::Contextual => self.stack.last().cloned(),
                        Parent::Explicit(i) => {
                            if *i < self.spans.len() {
                                Some(*i)
                            } else {
                                self.stack.last().cloned()
                            }
                        }
                        Parent::Root => None,
                    };
                    let explicit = matches!(parent, Parent::Explicit(i) if *i < self.spans.len());
                    let (sp, own) = {
                        let parg: Option<Option<&Span>> = if explicit { Some(Some(&self.spans[pidx.unwrap()].0)) } else if *parent == Parent::Root { Some(None) } else { None };
                        make_span(*shape, parg, VALS[*v], *n, *flag)
                    };
                    let mut m = LMap::default();
                    for (k, val) in own {
                        m.insert(k, val);
                    }
                    if let Some(p) = pidx {
                        let pl = self.spans[p].2.clone();
                        for (k, val) in pl.0 {
                            m.or_insert(&k, val);
                        }
                        if self.spans[p].2 .0.len() > 0 {
                            self.nontrivial = true;
                        }
                    }
                    self.trace.push(format!("{} new span#{} shape{} parent={:?} -> labels {:?}", self.thread_tag, self.spans.len(), shape, pidx, m.0));
                    self.spans.push((sp, *shape, m));
                }
                S::Record { span, field, v, n } => {
                    let i = *span % self.spans.len();
                    let (sp, shape, _) = &self.spans[i];
                    let shape = *shape;
                    let rec = record_field(sp, *field, VALS[*v], *n);
                    if let Some((k, val)) = rec {
                        if declared(shape).contains(&k) {
                            self.spans[i].2.insert(k, val.clone());
                            self.trace.push(format!("{} span#{}.record({}={:?})", self.thread_tag, i, k, val));
                        }
                    }
                }
                S::In { span, body } => {
                    let i = *span % self.spans.len();
                    if self.stack.contains(&i) {
                        // tracing's registry treats re-entering a span that is already on the stack as a duplicate and
                        // keeps the previous current span: outside this property, so such nestings are not generated
                        self.run(body);
                        continue;
                    }
                    let sp = self.spans[i].0.clone();
                    self.stack.push(i);
                    self.trace.push(format!("{} enter span#{} {{", self.thread_tag, i));
                    let me: *mut Interp<'a> = self;
                    // in_scope borrows the span clone only; the interpreter is re-borrowed inside
                    sp.in_scope(|| unsafe { (*me).run(body) });
                    self.stack.pop();
                    self.trace.push("}".into());
                }
                S::Emit { kind, labels } => {
                    self.emits += 1;
                    let key = Key::from_parts("m", labels.iter().map(|(k, v)| Label::new(k.clone(), v.clone())).collect::<Vec<_>>());
                    let _ = doubles::take_log(self.log);
                    match kind {
                        0 => {
                            let _ = self.rec.register_counter(&key, &MD);
                        }
                        1 => {
                            let _ = self.rec.register_gauge(&key, &MD);
                        }
                        _ => {
                            let _ = self.rec.register_histogram(&key, &MD);
                        }
                    }
                    let got = doubles::take_log(self.log);
                    // reference
                    let mut exp: BTreeMap<String, String> = BTreeMap::new();
                    if let Some(cur) = self.stack.last() {
                        for (k, v) in &self.spans[*cur].2 .0 {
                            if admits(self.filt, k, v) {
                                exp.insert(k.clone(), v.clone());
                            }
                        }
                    }
                    for (k, v) in labels {
                        exp.insert(k.clone(), v.clone());
                    }
                    let tr = |s: &Interp| J::A(s.trace.iter().rev().take(12).rev().map(|x| J::s(x.clone())).collect());
                    if got.len() != 1 {
                        let d = jo! {"what" => "emission not delivered exactly once to the inner recorder", "deliveries" => got.len(), "trace" => tr(self)};
                        self.viol.push(("C17:delivery-count".into(), d));
                        continue;
                    }
                    if let Op::Register { key: kd, .. } = &got[0].op {
                        let mut names: Vec<&String> = kd.labels.iter().map(|l| &l.0).collect();
                        names.sort();
                        let dup = names.windows(2).any(|w| w[0] == w[1]);
                        let gotm: BTreeMap<String, String> = kd.labels.iter().cloned().collect();
                        if dup {
                            let d = jo! {"what" => "the resulting key contains the same label name twice", "key" => kd.to_json(), "trace" => tr(self)};
                            self.viol.push(("C17:duplicate-label-name".into(), d));
                        } else if kd.name != "m" || gotm != exp {
                            // classify: which label differs
                            let extra: Vec<&String> = gotm.keys().filter(|k| !exp.contains_key(*k)).collect();
                            let missing: Vec<&String> = exp.keys().filter(|k| !gotm.contains_key(*k)).collect();
                            let sig = if !extra.is_empty() { "C17:unexpected-span-label" } else if !missing.is_empty() { "C17:span-label-missing" } else { "C17:wrong-label-precedence" };
                            let d = jo! {"what" => "key received by the inner recorder differs from own labels + admitted span fields (metric > inner span > outer span, later record() replaces)", "got" => format!("{:?}", gotm), "expected" => format!("{:?}", exp), "in_span" => format!("{:?}", self.stack.last()), "trace" => tr(self)};
                            self.viol.push((sig.into(), d));
                        } else if self.stack.is_empty() && KeyDesc::of(&key) != *kd {
                            let d = jo! {"what" => "key changed although there is no current span", "trace" => tr(self)};
                            self.viol.push(("C17:key-changed-without-span".into(), d));
                        }
                    }
                }
            }
        }
    }
}

/// One span shared by several threads, each recording a different field of it at the same moment (spin-synchronised
/// rounds); a metric emitted in the span after every round must carry this round's value of *every* field: a record()
/// replaces that field's earlier value and nothing else, whoever else is recording.
fn run_shared(a: &Args) -> Report {
    use std::sync::atomic::{AtomicU64, Ordering};
    use std::sync::Arc;
    let mut rep = Report::new("C17", &a.leg, a.seed);
    let mut r = Rng::new(a.shard_seed());
    let scenarios = a.budget(8, 400);
    for sc in 0..scenarios {
        let log = doubles::new_log();
        let inner = LogRecorder::new(1, &log);
        let rec = TracingContextLayer::all().layer(inner);
        let subscriber = tracing_subscriber::registry().with(MetricsLayer::new());
        let dispatch = Dispatch::new(subscriber);
        // (shape, recordable fields as (record_field code, name))
        let (shape, fields): (u8, Vec<(u8, &'static str)>) = match r.below(3) {
            0 => (0, vec![(0, "user"), (3, "n")]),
            1 => (1, vec![(0, "user"), (2, "service")]),
            _ => (3, vec![(0, "user"), (1, "late")]),
        };
        let rounds = if a.thorough() { 60_000u64 } else { 12_000 };
        let outer = tracing::dispatcher::with_default(&dispatch, || make_span(5, Some(None), "outer-svc", 0, false).0);
        let span = tracing::dispatcher::with_default(&dispatch, || make_span(shape, Some(Some(&outer)), "init", 0, false).0);
        let round = Arc::new(AtomicU64::new(0));
        let done = Arc::new(AtomicU64::new(0));
        let mut bad: Option<J> = None;
        let mut checked = 0u64;
        std::thread::scope(|scope| {
            for (code, _name) in fields.iter().cloned() {
                let (span, dispatch, round, done) = (span.clone(), dispatch.clone(), round.clone(), done.clone());
                scope.spawn(move || {
                    tracing::dispatcher::with_default(&dispatch, || {
                        let mut k = 1u64;
                        loop {
                            let mut spins = 0u64;
                            loop {
                                let cur = round.load(Ordering::Acquire);
                                if cur == u64::MAX {
                                    return;
                                }
                                if cur >= k {
                                    break;
                                }
                                spins += 1;
                                if spins % 4096 == 0 {
                                    std::thread::yield_now();
                                }
                            }
                            let v = format!("r{}", k);
                            let _ = record_field(&span, code, &v, k);
                            done.fetch_add(1, Ordering::AcqRel);
                            k += 1;
                        }
                    })
                });
            }
            tracing::dispatcher::with_default(&dispatch, || {
                for k in 1..=rounds {
                    round.store(k, Ordering::Release);
                    let want = k * fields.len() as u64;
                    let mut spins = 0u64;
                    while done.load(Ordering::Acquire) < want {
                        spins += 1;
                        if spins % 4096 == 0 {
                            std::thread::yield_now();
                        }
                    }
                    let _ = doubles::take_log(&log);
                    span.in_scope(|| {
                        let _ = rec.register_counter(&Key::from_name("m"), &MD);
                    });
                    let got = doubles::take_log(&log);
                    checked += 1;
                    let labels: BTreeMap<String, String> = match got.first().map(|e| &e.op) {
                        Some(Op::Register { key, .. }) => key.labels.iter().cloned().collect(),
                        _ => BTreeMap::new(),
                    };
                    let mut wrong = Vec::new();
                    for (code, name) in &fields {
                        let exp = if *code == 1 || *code == 3 { k.to_string() } else { format!("r{}", k) };
                        if labels.get(*name) != Some(&exp) {
                            wrong.push(format!("{}: expected {:?}, got {:?}", name, exp, labels.get(*name)));
                        }
                    }
                    if got.len() != 1 || !wrong.is_empty() {
                        bad = Some(jo! {"what" => "after two threads each recorded a different field of the same span, a metric emitted in that span lacks one of the recorded values (a record() must replace that field only)", "round" => k, "span_shape" => shape as u64, "fields_recorded_concurrently" => J::A(fields.iter().map(|f| J::s(f.1)).collect()), "wrong" => J::A(wrong.into_iter().map(J::s).collect()), "labels_received" => format!("{:?}", labels)});
                        break;
                    }
                }
                round.store(u64::MAX, Ordering::Release);
            });
        });
        if let Some(d) = bad {
            rep.violation("C17:concurrent-record-lost", d);
        }
        rep.count("rounds_checked", checked);
        rep.case(mix(sc, shape as u64), checked > 100);
        if rep.want_sample() {
            rep.sample(jo! {"shared_span" => true, "span_shape" => shape as u64, "rounds_checked" => checked, "fields" => J::A(fields.iter().map(|f| J::s(f.1)).collect())});
        }
    }
    rep
}

pub fn run(a: &Args) -> Option<Report> {
    if a.leg == "shared-span" {
        return Some(run_shared(a));
    }
    if a.leg != "native" && a.leg != "asan" {
        return None;
    }
    let mut rep = Report::new("C17", &a.leg, a.seed);
    let mut r = Rng::new(a.shard_seed());
    let n = if a.leg == "asan" { a.budget(1000, 100_000) } else { a.budget(6000, 600_000) };
    for _ in 0..n {
        let filt = match r.below(4) {
            0 | 1 => Filt::All,
            2 => Filt::Allow(vec!["user".into(), "n".into(), r.pick(&["service", "tenant", "late"]).to_string()]),
            _ => Filt::Custom,
        };
        let log = doubles::new_log();
        let inner = LogRecorder::new(1, &log);
        let rec: Box<dyn Recorder + Send + Sync> = match &filt {
            Filt::All => Box::new(TracingContextLayer::all().layer(inner)),
            Filt::Allow(v) => Box::new(TracingContextLayer::only_allow(v.iter()).layer(inner)),
            Filt::Custom => Box::new(TracingContextLayer::new(CustomFilter).layer(inner)),
        };
        let subscriber = tracing_subscriber::registry().with(MetricsLayer::new());
        let dispatch = Dispatch::new(subscriber);
        // half of the cases start with an emission inside a span under a subscriber that has no MetricsLayer (on another
        // thread, through the same recorder): the key is unchanged there, and nothing of it may carry over
        if r.chance(1, 2) {
            let plain = Dispatch::new(tracing_subscriber::registry());
            let rec_ref: &(dyn Recorder + Send + Sync) = &*rec;
            let log2 = log.clone();
            let bad = std::thread::scope(|sc| {
                sc.spawn(move || {
                    tracing::dispatcher::with_default(&plain, || {
                        let sp = span!(Level::INFO, "no_layer", user = "nobody");
                        let _ = doubles::take_log(&log2);
                        sp.in_scope(|| {
                            let _ = rec_ref.register_counter(&Key::from_parts("m", vec![Label::new("own", "1")]), &MD);
                        });
                        let got = doubles::take_log(&log2);
                        match got.first().map(|e| &e.op) {
                            Some(Op::Register { key, .. }) if got.len() == 1 => key.labels != vec![("own".to_string(), "1".to_string())],
                            _ => true,
                        }
                    })
                })
                .join()
                .unwrap_or(true)
            });
            if bad {
                rep.violation("C17:key-changed-without-span", jo! {"what" => "an emission inside a span of a subscriber without MetricsLayer did not reach the inner recorder exactly once with its key unchanged"});
            }
        }
        let nthreads = 1 + r.usize(3);
        let mut scripts = Vec::new();
        for _ in 0..nthreads {
            let mut ns = 0usize;
            let l = 4 + r.usize(16);
            scripts.push(gen_script(&mut r, 3, l, &mut ns));
        }
        let mut h = fnv(format!("{:?}", scripts).as_bytes());
        h = mix(h, match &filt { Filt::All => 0, Filt::Allow(v) => 1 + fnv(v[2].as_bytes()), Filt::Custom => 2 });
        let mut total_emits = 0;
        let mut nontrivial = false;
        let mut trace_sample = Vec::new();
        if nthreads == 1 {
            let mut it = Interp { spans: Vec::new(), stack: Vec::new(), rec: &*rec, log: &log, filt: &filt, viol: Vec::new(), trace: Vec::new(), emits: 0, nontrivial: false, thread_tag: "t0" };
            tracing::dispatcher::with_default(&dispatch, || it.run(&scripts[0]));
            total_emits += it.emits;
            nontrivial |= it.nontrivial;
            for (s, d) in it.viol.drain(..) {
                rep.violation(s, d);
            }
            trace_sample = it.trace;
        } else {
            // several threads, one subscriber, each thread its own inner log (labels of other threads' spans must not leak)
            let results: Vec<(Vec<(String, J)>, u64, bool, Vec<String>)> = std::thread::scope(|sc| {
                let mut hs = Vec::new();
                for (ti, script) in scripts.iter().enumerate() {
                    let dispatch = dispatch.clone();
                    let filt = filt.clone();
                    hs.push(sc.spawn(move || {
                        let log = doubles::new_log();
                        let inner = LogRecorder::new(1, &log);
                        let rec: Box<dyn Recorder> = match &filt {
                            Filt::All => Box::new(TracingContextLayer::all().layer(inner)),
                            Filt::Allow(v) => Box::new(TracingContextLayer::only_allow(v.iter()).layer(inner)),
                            Filt::Custom => Box::new(TracingContextLayer::new(CustomFilter).layer(inner)),
                        };
                        let tag: &'static str = ["t0", "t1", "t2", "t3"][ti];
                        let mut it = Interp { spans: Vec::new(), stack: Vec::new(), rec: &*rec, log: &log, filt: &filt, viol: Vec::new(), trace: Vec::new(), emits: 0, nontrivial: false, thread_tag: tag };
                        tracing::dispatcher::with_default(&dispatch, || it.run(script));
                        (std::mem::take(&mut it.viol), it.emits, it.nontrivial, std::mem::take(&mut it.trace))
                    }));
                }
                hs.into_iter().map(|h| h.join().unwrap()).collect()
            });
            for (v, e, nt, tr) in results {
                total_emits += e;
                nontrivial |= nt;
                for (s, d) in v {
                    rep.violation(s, d);
                }
                if trace_sample.is_empty() {
                    trace_sample = tr;
                }
            }
        }
        rep.count("emissions", total_emits);
        rep.case(h, nontrivial && total_emits > 0);
        if rep.want_sample() && nontrivial && trace_sample.len() > 6 {
            rep.sample(jo! {"filter" => match &filt { Filt::All => "include-all".to_string(), Filt::Allow(v) => format!("allow {:?}", v), Filt::Custom => "custom (non-empty values, not 'service')".to_string() }, "threads" => nthreads, "trace" => J::A(trace_sample.iter().take(18).map(|s| J::s(s.clone())).collect())});
        }
    }
    let _ = rt::stamp;
    Some(rep)
}
