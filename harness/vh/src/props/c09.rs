//! C09 — DogStatsD payloads are valid, within the size limit, and account for every point.
use crate::dsdparse::{self, Msg};
use crate::rt::{self, fnv, mix, Args, Report, Rng, J};
use metrics::{Key, Label};
use metrics_exporter_dogstatsd::verif::Writer;

// the wire format has no escaping: names/tags come from a delimiter-free alphabet
const NAMES: &[&str] = &["", "a", "ab", "metric.name", "some_rather_long_metric_name_with_many_characters", "é", "x"];
const TAGK: &[&str] = &["k", "env", "a_longer_tag_key", "é"];
const TAGV: &[&str] = &["", "v", "prod", "some-value", "é"];
const PREFIXES: &[Option<&str>] = &[None, None, Some("p"), Some("my.app"), Some(""), Some("a_very_long_global_prefix_for_all_metrics")];

#[derive(Clone, Debug)]
enum W {
    Counter(u64, Option<u64>),
    Gauge(f64, Option<u64>),
    Hist(Vec<f64>, Option<f64>, bool),
    Drain,
}

fn long_name(r: &mut Rng) -> String {
    let n = *r.pick(&[0usize, 1, 5, 30, 100, 300]);
    let mut s = r.pick(NAMES).to_string();
    while s.len() < n {
        s.push((b'a' + (s.len() % 26) as u8) as char);
    }
    s
}

fn expected_tags(global: &[Label], key: &Key) -> Vec<(String, Option<String>)> {
    global.iter().chain(key.labels()).map(|l| (l.key().to_string(), if l.value().is_empty() { None } else { Some(l.value().to_string()) })).collect()
}

/// Length of a counter message, computed independently (integers format unambiguously).
fn counter_len(name: &str, prefix: Option<&str>, v: u64, ts: Option<u64>, tags: &[(String, Option<String>)]) -> usize {
    let mut n = name.len() + 1 + v.to_string().len() + 2;
    if let Some(p) = prefix {
        n += p.len() + 1;
    }
    if !tags.is_empty() {
        n += 2;
        for (i, (k, val)) in tags.iter().enumerate() {
            if i > 0 {
                n += 1;
            }
            n += k.len();
            if let Some(val) = val {
                n += 1 + val.len();
            }
        }
    }
    if let Some(t) = ts {
        n += 2 + t.to_string().len();
    }
    n + 1
}

fn same_f64(s: &str, v: f64) -> bool {
    match s.parse::<f64>() {
        Ok(p) => p.to_bits() == v.to_bits() || (p.is_nan() && v.is_nan()),
        Err(_) => false,
    }
}

pub fn run(a: &Args) -> Option<Report> {
    if a.leg != "native" && a.leg != "asan" {
        return None;
    }
    rt::quiet_panics();
    let mut rep = Report::new("C09", &a.leg, a.seed);
    let mut r = Rng::new(a.shard_seed());
    let n = if a.leg == "asan" { a.budget(3000, 300_000) } else { a.budget(30_000, 3_000_000) };
    for _ in 0..n {
        let lp = r.chance(1, 2);
        let prefix: Option<String> = r.pick(PREFIXES).map(|s| s.to_string());
        let nglob = r.usize(4);
        let global: Vec<Label> = (0..nglob).map(|i| Label::new(format!("g{}{}", i, r.pick(TAGK)), r.pick(TAGV).to_string())).collect();
        let name = long_name(&mut r);
        let nl = r.usize(4);
        let key = Key::from_parts(name.clone(), (0..nl).map(|i| Label::new(format!("{}{}", r.pick(TAGK), i), r.pick(TAGV).to_string())).collect::<Vec<_>>());
        let tags = expected_tags(&global, &key);
        let full_name = match &prefix {
            Some(p) => format!("{}.{}", p, name),
            None => name.clone(),
        };
        // limit concentrated around the length of a typical message for this key
        let base = counter_len(&name, prefix.as_deref(), 7, None, &tags);
        let limit: usize = match r.below(8) {
            0 => 0,
            1 => r.usize(20),
            2 => 20_000,
            3 => 8192,
            _ => (base as i64 + r.range(-3, 40)).max(0) as usize,
        };
        let mut w = match rt::catch(|| Writer::new(limit, lp)) {
            Ok(w) => w,
            Err(m) => {
                rep.violation("C09:panic:new", jo! {"what" => "PayloadWriter::new panicked", "panic" => m, "limit" => limit});
                continue;
            }
        };
        let nops = 1 + r.usize(8);
        let mut h = mix(limit as u64 ^ (lp as u64) << 40, fnv(full_name.as_bytes()));
        let mut trace: Vec<String> = Vec::new();
        // expectations accumulated since the last drain: list of (kind, per-write expectation)
        let mut pending: Vec<(W, u64, u64)> = Vec::new(); // (write, payloads_written, points_dropped)
        let mut failed = false;
        let ctx = |trace: &Vec<String>| jo! {"max_payload_len" => limit, "length_prefix" => lp, "prefix" => format!("{:?}", prefix), "name_len" => name.len(), "global_tags" => nglob, "own_tags" => nl, "ops" => J::A(trace.iter().map(|s| J::s(s.clone())).collect())};
        for opi in 0..=nops {
            if failed {
                break;
            }
            let op = if opi == nops {
                W::Drain
            } else {
                match r.below(8) {
                    0 | 1 => W::Counter(*r.pick(&[0u64, 7, 12345, u64::MAX]), if r.chance(1, 3) { Some(1_700_000_000 + r.below(1000)) } else { None }),
                    2 | 3 => W::Gauge(*r.pick(&[0.0f64, -0.0, 1.5, -2.25, 1e300, 5e-324, f64::NAN, f64::INFINITY, f64::NEG_INFINITY, 0.1, 1e21, 123456789.125]), if r.chance(1, 3) { Some(1_700_000_000) } else { None }),
                    4 | 5 | 6 => {
                        let cnt = *r.pick(&[0usize, 1, 2, 5, 40, 400, 3000]);
                        let vals: Vec<f64> = (0..cnt).map(|i| match r.below(6) { 0 => i as f64, 1 => 0.1 * i as f64, 2 => 1e300, 3 => f64::NAN, 4 => -1.5, _ => 123456.789 }).collect();
                        W::Hist(vals, if r.chance(1, 3) { Some(*r.pick(&[1.0f64, 0.5, 0.01])) } else { None }, r.chance(1, 2))
                    }
                    _ => W::Drain,
                }
            };
            h = mix(h, match &op { W::Counter(v, _) => 1 + (*v % 97), W::Gauge(v, _) => 200 + (v.to_bits() % 97), W::Hist(v, _, d) => 400 + v.len() as u64 * 2 + *d as u64, W::Drain => 9 });
            match &op {
                W::Counter(v, ts) => {
                    trace.push(format!("write_counter({}, ts={:?})", v, ts));
                    match rt::catch(|| w.write_counter(&key, *v, *ts, prefix.as_deref(), &global)) {
                        Ok((wr, dr)) => {
                            let fits = counter_len(&name, prefix.as_deref(), *v, *ts, &tags) <= limit;
                            if (wr, dr) != if fits { (1, 0) } else { (0, 1) } {
                                rep.violation("C09:counter-fit-decision", jo! {"what" => "a counter message that fits the limit was dropped, or one that does not fit was reported written", "message_len" => counter_len(&name, prefix.as_deref(), *v, *ts, &tags), "reported" => format!("written={} dropped={}", wr, dr), "case" => ctx(&trace)});
                                failed = true;
                            }
                            pending.push((op.clone(), wr, dr));
                        }
                        Err(m) => {
                            rep.violation("C09:panic:write_counter", jo! {"what" => "write_counter panicked", "panic" => m, "case" => ctx(&trace)});
                            failed = true;
                        }
                    }
                }
                W::Gauge(v, ts) => {
                    trace.push(format!("write_gauge({:?}, ts={:?})", v, ts));
                    match rt::catch(|| w.write_gauge(&key, *v, *ts, prefix.as_deref(), &global)) {
                        Ok((wr, dr)) => {
                            if wr + dr != 1 {
                                rep.violation("C09:accounting", jo! {"what" => "gauge write: written + dropped != 1", "case" => ctx(&trace)});
                                failed = true;
                            }
                            pending.push((op.clone(), wr, dr));
                        }
                        Err(m) => {
                            rep.violation("C09:panic:write_gauge", jo! {"what" => "write_gauge panicked", "panic" => m, "case" => ctx(&trace)});
                            failed = true;
                        }
                    }
                }
                W::Hist(vals, rate, dist) => {
                    trace.push(format!("write_{}({} values, rate={:?})", if *dist { "distribution" } else { "histogram" }, vals.len(), rate));
                    let res = rt::catch(|| if *dist { w.write_distribution(&key, vals, *rate, prefix.as_deref(), &global) } else { w.write_histogram(&key, vals, *rate, prefix.as_deref(), &global) });
                    match res {
                        Ok((wr, dr)) => pending.push((op.clone(), wr, dr)),
                        Err(m) => {
                            let with_prefix = prefix.is_some();
                            rep.violation(format!("C09:panic:write_histogram:{}", if with_prefix { "with-global-prefix" } else { "no-prefix" }), jo! {"what" => "histogram/distribution serialisation panicked", "panic" => m, "case" => ctx(&trace)});
                            failed = true;
                        }
                    }
                }
                W::Drain => {
                    trace.push("drain".into());
                    let payloads = match rt::catch(|| w.drain()) {
                        Ok(p) => p,
                        Err(m) => {
                            rep.violation("C09:panic:drain", jo! {"what" => "payloads() panicked", "panic" => m, "case" => ctx(&trace)});
                            failed = true;
                            continue;
                        }
                    };
                    // decode
                    let mut msgs: Vec<Msg> = Vec::new();
                    let earlier_failed = pending.iter().any(|p| p.2 > 0);
                    let earlier_drained = trace.iter().filter(|t| *t == "drain").count() > 1;
                    for (pi, p) in payloads.iter().enumerate() {
                        let body: &[u8] = if lp {
                            if p.len() < 4 {
                                rep.violation("C09:length-prefix-missing", jo! {"what" => "length-prefixed payload shorter than its header", "case" => ctx(&trace)});
                                failed = true;
                                break;
                            }
                            let l = u32::from_le_bytes([p[0], p[1], p[2], p[3]]) as usize;
                            if l != p.len() - 4 {
                                let cls = if earlier_drained { "after-earlier-drain" } else if earlier_failed { "after-rejected-metric" } else { "plain" };
                                rep.violation(format!("C09:length-prefix-wrong:{}", cls), jo! {"what" => "the 4-byte little-endian header does not equal the payload's byte length", "header" => l, "actual" => p.len() - 4, "payload_index" => pi, "payload_head" => String::from_utf8_lossy(&p[..p.len().min(40)]).to_string(), "case" => ctx(&trace)});
                                failed = true;
                                break;
                            }
                            &p[4..]
                        } else {
                            &p[..]
                        };
                        if body.len() > limit {
                            rep.violation("C09:payload-exceeds-limit", jo! {"what" => "a payload is longer than the configured maximum", "len" => body.len(), "case" => ctx(&trace)});
                            failed = true;
                            break;
                        }
                        match dsdparse::parse(body) {
                            Ok(m) => msgs.push(m),
                            Err(e) => {
                                let cls = if lp && earlier_drained { ":length-prefixed-after-earlier-drain" } else if lp && earlier_failed { ":length-prefixed-after-rejected-metric" } else { "" };
                                rep.violation(format!("C09:payload-not-one-message{}", cls), jo! {"what" => "a payload is not exactly one complete DogStatsD message", "error" => e, "payload" => String::from_utf8_lossy(&body[..body.len().min(80)]).to_string(), "case" => ctx(&trace)});
                                failed = true;
                                break;
                            }
                        }
                    }
                    if failed {
                        continue;
                    }
                    // walk expectations
                    let mut mi = 0usize;
                    for (wop, wr, dr) in pending.drain(..) {
                        let take = wr as usize;
                        if mi + take > msgs.len() {
                            rep.violation("C09:accounting", jo! {"what" => "fewer payloads emitted than reported written", "case" => ctx(&trace)});
                            failed = true;
                            break;
                        }
                        let mine = &msgs[mi..mi + take];
                        mi += take;
                        for m in mine {
                            if m.name != full_name || m.tags != tags {
                                rep.violation("C09:name-or-tags-differ", jo! {"what" => "message name is not (prefix.)name or tags are not global-then-own", "got_name" => m.name.clone(), "expected_name" => full_name.clone(), "got_tags" => format!("{:?}", m.tags), "expected_tags" => format!("{:?}", tags), "case" => ctx(&trace)});
                                failed = true;
                            }
                        }
                        match wop {
                            W::Counter(v, ts) => {
                                if take == 1 && (mine[0].ty != "c" || mine[0].values != vec![v.to_string()] || mine[0].ts != ts || mine[0].rate.is_some()) {
                                    rep.violation("C09:message-differs", jo! {"what" => "counter message does not carry the given value/timestamp", "got" => format!("{:?}", mine[0]), "case" => ctx(&trace)});
                                    failed = true;
                                }
                            }
                            W::Gauge(v, ts) => {
                                if take == 1 && (mine[0].ty != "g" || mine[0].values.len() != 1 || !same_f64(&mine[0].values[0], v) || mine[0].ts != ts) {
                                    rep.violation("C09:message-differs", jo! {"what" => "gauge message does not carry the given value at round-trip precision", "got" => format!("{:?}", mine[0]), "value" => v, "case" => ctx(&trace)});
                                    failed = true;
                                }
                            }
                            W::Hist(vals, rate, dist) => {
                                let emitted: Vec<&String> = mine.iter().flat_map(|m| m.values.iter()).collect();
                                if emitted.len() as u64 + dr != vals.len() as u64 {
                                    rep.violation("C09:accounting", jo! {"what" => "points in payloads + reported dropped != input points", "emitted" => emitted.len(), "dropped" => dr, "input" => vals.len(), "case" => ctx(&trace)});
                                    failed = true;
                                }
                                // emitted values are a subsequence of the input, in order
                                let mut vi = 0usize;
                                for e in &emitted {
                                    while vi < vals.len() && !same_f64(e, vals[vi]) {
                                        vi += 1;
                                    }
                                    if vi >= vals.len() {
                                        rep.violation("C09:message-differs", jo! {"what" => "histogram payload values are not the input values in order at round-trip precision", "case" => ctx(&trace)});
                                        failed = true;
                                        break;
                                    }
                                    vi += 1;
                                }
                                for m in mine {
                                    let exp_ty = if dist { "d" } else { "h" };
                                    let rate_ok = match (rate, &m.rate) {
                                        (None, None) => true,
                                        (Some(rv), Some(s)) => same_f64(s, rv),
                                        _ => false,
                                    };
                                    if m.ty != exp_ty || !rate_ok || m.ts.is_some() {
                                        rep.violation("C09:message-differs", jo! {"what" => "histogram message has wrong type / sample rate", "got" => format!("{:?} rate {:?}", m.ty, m.rate), "case" => ctx(&trace)});
                                        failed = true;
                                    }
                                }
                                // generous limit: nothing may be dropped
                                if dr > 0 && limit >= counter_len(&name, prefix.as_deref(), 0, None, &tags) + 40 {
                                    rep.violation("C09:dropped-although-it-fits", jo! {"what" => "histogram points were dropped although a single value certainly fits the limit", "dropped" => dr, "case" => ctx(&trace)});
                                    failed = true;
                                }
                            }
                            W::Drain => {}
                        }
                        if failed {
                            break;
                        }
                    }
                    if !failed && mi != msgs.len() {
                        rep.violation("C09:accounting", jo! {"what" => "more payloads emitted than the writes reported", "emitted" => msgs.len(), "reported" => mi, "case" => ctx(&trace)});
                        failed = true;
                    }
                }
            }
        }
        rep.case(h, nops >= 2);
        if rep.want_sample() && trace.len() >= 4 {
            rep.sample(ctx(&trace));
        }
    }
    Some(rep)
}
