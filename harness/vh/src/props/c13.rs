//! C13 — layers deliver exactly the transformed operations to exactly the right recorders.
use crate::doubles::{self, Kind, LogRecorder, Op, Rec};
use crate::rt::{fnv, mix, Args, Report, Rng, J};
use metrics::{Key, KeyName, Label, Level, Metadata, Recorder, SharedString, Unit};
use metrics_util::layers::{FanoutBuilder, FilterLayer, Layer, PrefixLayer, RouterBuilder, Stack};
use metrics_util::MetricKindMask;

const NAMES: &[&str] = &["", "a", "ab", "abc", "b", "A", "aB", "AB", "é", "a.b", "ab.c", "p.a", "bc", "xab"];
const PREFIXES: &[&str] = &["", "p", "a", "é"];
const PATTERNS: &[&str] = &["", "a", "b", "ab", "B", "é", "bc", "abc", "p.", "."];
const ROUTES: &[&str] = &["", "a", "ab", "abc", "b", "p.a", "p", "é", "A", "a.", "p.ab"];
const UNITS: &[Option<Unit>] = &[None, Some(Unit::Count), Some(Unit::Bytes), Some(Unit::Seconds)];

#[derive(Clone, Debug)]
enum Node {
    Leaf(u32),
    Prefix(String, Box<Node>, bool),
    Filter(Vec<String>, bool, bool, Box<Node>),
    Router(Box<Node>, Vec<(u8, String, Node)>), // mask: 0 ALL, 1 counter, 2 gauge, 3 histogram
    Fanout(Vec<Node>),
}

type BoxRec = Box<dyn Recorder + Sync>;

fn gen_node(r: &mut Rng, depth: u32, next_leaf: &mut u32) -> Node {
    let choice = if depth == 0 { 0 } else { r.below(9) };
    match choice {
        0 | 1 => {
            let id = *next_leaf;
            *next_leaf += 1;
            Node::Leaf(id)
        }
        2 | 3 => Node::Prefix(r.pick(PREFIXES).to_string(), Box::new(gen_node(r, depth - 1, next_leaf)), r.chance(1, 2)),
        4 | 5 => {
            let n = r.usize(4);
            let mut pats = Vec::new();
            for _ in 0..n {
                pats.push(r.pick(PATTERNS).to_string());
            }
            Node::Filter(pats, r.chance(1, 2), r.chance(1, 2), Box::new(gen_node(r, depth - 1, next_leaf)))
        }
        6 | 7 => {
            let def = gen_node(r, depth - 1, next_leaf);
            let n = r.usize(5);
            let mut routes = Vec::new();
            for _ in 0..n {
                let mask = if r.chance(1, 3) { 0 } else { 1 + r.below(3) as u8 };
                routes.push((mask, r.pick(ROUTES).to_string(), gen_node(r, depth - 1, next_leaf)));
            }
            Node::Router(Box::new(def), routes)
        }
        _ => {
            let n = r.usize(4);
            Node::Fanout((0..n).map(|_| gen_node(r, depth - 1, next_leaf)).collect())
        }
    }
}

fn build(n: &Node, log: &doubles::Log, many_override: bool) -> BoxRec {
    match n {
        Node::Leaf(id) => {
            let mut l = LogRecorder::new(*id, log);
            l.record_many_override = many_override;
            Box::new(l)
        }
        Node::Prefix(p, inner, via_stack) => {
            let inner = build(inner, log, many_override);
            if *via_stack {
                Box::new(Stack::new(inner).push(PrefixLayer::new(p.clone())))
            } else {
                Box::new(PrefixLayer::new(p.clone()).layer(inner))
            }
        }
        Node::Filter(pats, ci, dfa, inner) => {
            let inner = build(inner, log, many_override);
            // in half of the stacks the FilterLayer value has already produced a filter (from a first pattern, with the
            // opposite case mode) before the rest of its configuration was added: each layer() reflects the
            // configuration at the time it is called
            let mut fl = if pats.len() >= 2 && (pats[0].len() + pats.len()) % 2 == 0 {
                let mut fl = FilterLayer::from_patterns(pats[..1].iter());
                fl.case_insensitive(!*ci).use_dfa(*dfa);
                let _early = fl.layer(metrics::NoopRecorder);
                for p in &pats[1..] {
                    fl.add_pattern(p.clone());
                }
                fl
            } else {
                FilterLayer::from_patterns(pats.iter())
            };
            fl.case_insensitive(*ci).use_dfa(*dfa);
            Box::new(Stack::new(inner).push(fl))
        }
        Node::Router(def, routes) => {
            let mut b = RouterBuilder::from_recorder(build(def, log, many_override));
            for (mask, pat, node) in routes {
                let m = match mask {
                    0 => MetricKindMask::ALL,
                    1 => MetricKindMask::COUNTER,
                    2 => MetricKindMask::GAUGE,
                    _ => MetricKindMask::HISTOGRAM,
                };
                b.add_route(m, pat, build(node, log, many_override));
            }
            Box::new(b.build())
        }
        Node::Fanout(children) => {
            let mut b = FanoutBuilder::default();
            for c in children {
                b = b.add_recorder(build(c, log, many_override));
            }
            Box::new(b.build())
        }
    }
}

fn contains_ci(h: &str, n: &str, ci: bool) -> bool {
    if ci {
        h.to_ascii_lowercase().contains(&n.to_ascii_lowercase())
    } else {
        h.contains(n)
    }
}

/// Reference semantics: which leaves receive an operation on `name` of `kind`, and under which name.
fn route_ref(n: &Node, kind: Kind, name: &str, out: &mut Vec<(u32, String)>) {
    match n {
        Node::Leaf(id) => out.push((*id, name.to_string())),
        Node::Prefix(p, inner, _) => route_ref(inner, kind, &format!("{}.{}", p, name), out),
        Node::Filter(pats, ci, _, inner) => {
            if pats.iter().any(|p| contains_ci(name, p, *ci)) {
                // dropped
            } else {
                route_ref(inner, kind, name, out)
            }
        }
        Node::Router(def, routes) => {
            let k = match kind {
                Kind::Counter => 1,
                Kind::Gauge => 2,
                Kind::Histogram => 3,
            };
            let mut best: Option<(usize, usize)> = None; // (len, index) — later duplicate wins
            for (i, (mask, pat, _)) in routes.iter().enumerate() {
                if (*mask == 0 || *mask == k) && name.starts_with(pat.as_str()) {
                    match best {
                        Some((l, _)) if l > pat.len() => {}
                        _ => best = Some((pat.len(), i)),
                    }
                }
            }
            match best {
                Some((_, i)) => route_ref(&routes[i].2, kind, name, out),
                None => route_ref(def, kind, name, out),
            }
        }
        Node::Fanout(children) => {
            for c in children {
                route_ref(c, kind, name, out)
            }
        }
    }
}

fn node_hash(n: &Node) -> u64 {
    match n {
        Node::Leaf(_) => 1,
        Node::Prefix(p, i, s) => mix(mix(2, fnv(p.as_bytes())), node_hash(i) ^ *s as u64),
        Node::Filter(p, ci, dfa, i) => {
            let mut h = mix(3, (*ci as u64) << 1 | *dfa as u64);
            for x in p {
                h = mix(h, fnv(x.as_bytes()));
            }
            mix(h, node_hash(i))
        }
        Node::Router(d, rs) => {
            let mut h = mix(4, node_hash(d));
            for (m, p, n) in rs {
                h = mix(mix(h, *m as u64), fnv(p.as_bytes()) ^ node_hash(n));
            }
            h
        }
        Node::Fanout(c) => {
            let mut h = 5;
            for x in c {
                h = mix(h, node_hash(x));
            }
            h
        }
    }
}

fn layers(n: &Node) -> u32 {
    match n {
        Node::Leaf(_) => 0,
        Node::Prefix(_, i, _) => 1 + layers(i),
        Node::Filter(_, _, _, i) => 1 + layers(i),
        Node::Router(d, rs) => 1 + layers(d) + rs.iter().map(|x| layers(&x.2)).sum::<u32>(),
        Node::Fanout(c) => 1 + c.iter().map(layers).sum::<u32>(),
    }
}

fn node_json(n: &Node) -> J {
    J::s(format!("{:?}", n))
}

fn sorted(mut v: Vec<(u32, String)>) -> Vec<(u32, String)> {
    v.sort();
    v
}

pub fn run(a: &Args) -> Option<Report> {
    if a.leg != "native" {
        return None;
    }
    let mut rep = Report::new("C13", &a.leg, a.seed);
    let mut r = Rng::new(a.shard_seed());
    let stacks = a.budget(6000, 600_000);
    static TARGETS: [&str; 3] = ["t1", "some::target", ""];
    for _ in 0..stacks {
        let mut nl = 0;
        let depth = 1 + r.below(3) as u32;
        let tree = gen_node(&mut r, depth, &mut nl);
        let log = doubles::new_log();
        let many_override = r.chance(1, 2);
        let rec = build(&tree, &log, many_override);
        let th = node_hash(&tree);
        let nontrivial = layers(&tree) >= 2;
        let nops = 4 + r.usize(20);
        for _ in 0..nops {
            let kind = *r.pick(&Kind::ALL);
            let name = r.pick(NAMES).to_string();
            let is_describe = r.chance(1, 3);
            let mut expect: Vec<(u32, String)> = Vec::new();
            route_ref(&tree, kind, &name, &mut expect);
            rep.case(mix(mix(th, fnv(name.as_bytes())), kind as u64 * 2 + is_describe as u64), nontrivial);
            let fail = |rep: &mut Report, sig: &str, what: String, got: &Vec<Rec>| {
                rep.violation(
                    sig,
                    jo! {"what" => what, "stack" => node_json(&tree), "kind" => kind.name(), "name" => name.clone(),
                    "expected_deliveries" => J::A(expect.iter().map(|(l, n)| J::s(format!("leaf{}:{}", l, n))).collect()),
                    "got" => J::A(got.iter().map(|x| J::s(format!("leaf{}:{:?}", x.rec, x.op))).collect())},
                );
            };
            if is_describe {
                let unit = *r.pick(UNITS);
                let desc = r.pick(&["", "d", "some text"]).to_string();
                let (kn, d) = (KeyName::from(name.clone()), SharedString::from(desc.clone()));
                match kind {
                    Kind::Counter => rec.describe_counter(kn, unit, d),
                    Kind::Gauge => rec.describe_gauge(kn, unit, d),
                    Kind::Histogram => rec.describe_histogram(kn, unit, d),
                }
                let got = doubles::take_log(&log);
                let mut g: Vec<(u32, String)> = Vec::new();
                let mut ok = true;
                for x in &got {
                    match &x.op {
                        Op::Describe { kind: k, name: n, unit: u, desc: dd } => {
                            if *k != kind || *u != unit || *dd != desc {
                                ok = false;
                            }
                            g.push((x.rec, n.clone()));
                        }
                        _ => ok = false,
                    }
                }
                if !ok || sorted(g) != sorted(expect.clone()) {
                    let sig = format!("C13:describe-misdelivered:{}", kind.name());
                    fail(&mut rep, &sig, "describe delivered to the wrong recorders / with altered fields".into(), &got);
                }
            } else {
                let nlab = r.usize(3);
                let labels: Vec<(String, String)> = (0..nlab).map(|i| (format!("k{}", i), r.pick(&["", "v", "é"]).to_string())).collect();
                let key = Key::from_parts(name.clone(), labels.iter().map(|(k, v)| Label::new(k.clone(), v.clone())).collect::<Vec<_>>());
                let lvl = [Level::TRACE, Level::DEBUG, Level::INFO, Level::WARN, Level::ERROR][r.usize(5)];
                let lvln = doubles::level_num(&lvl);
                let target = *r.pick(&TARGETS);
                let mp = if r.chance(1, 2) { Some("m::p") } else { None };
                let md = Metadata::new(target, lvl, mp);
                // register + a few updates through the returned handle
                let mut handle_of: Vec<(u32, u64)> = Vec::new();
                let check_reg = |rep: &mut Report, got: &Vec<Rec>, handle_of: &mut Vec<(u32, u64)>| {
                    let mut g: Vec<(u32, String)> = Vec::new();
                    let mut ok = true;
                    for x in got {
                        match &x.op {
                            Op::Register { kind: k, key: kd, target: t, level: l, module_path: m, handle } => {
                                if *k != kind || kd.labels != labels || t != target || *l != lvln || m.as_deref() != mp {
                                    ok = false;
                                }
                                g.push((x.rec, kd.name.clone()));
                                handle_of.push((x.rec, *handle));
                            }
                            _ => ok = false,
                        }
                    }
                    if !ok || sorted(g) != sorted(expect.clone()) {
                        let sig = format!("C13:register-misdelivered:{}", kind.name());
                        fail(rep, &sig, "register delivered to the wrong recorders / with altered key or metadata".into(), got);
                        false
                    } else {
                        true
                    }
                };
                let nupd = 1 + r.usize(3);
                match kind {
                    Kind::Counter => {
                        let h = rec.register_counter(&key, &md);
                        let got = doubles::take_log(&log);
                        if !check_reg(&mut rep, &got, &mut handle_of) {
                            continue;
                        }
                        for _ in 0..nupd {
                            let v = *r.pick(&[0u64, 1, 7, u64::MAX]);
                            let abs = r.chance(1, 3);
                            if abs {
                                h.absolute(v)
                            } else {
                                h.increment(v)
                            }
                            let got = doubles::take_log(&log);
                            let mut exp: Vec<(u32, Op)> = handle_of.iter().map(|(l, hid)| (*l, if abs { Op::CounterAbs { handle: *hid, v } } else { Op::CounterInc { handle: *hid, v } })).collect();
                            let mut g: Vec<(u32, Op)> = got.iter().map(|x| (x.rec, x.op.clone())).collect();
                            exp.sort_by_key(|x| x.0);
                            g.sort_by_key(|x| x.0);
                            if g != exp {
                                fail(&mut rep, "C13:update-misdelivered:counter", "counter update through the returned handle not delivered exactly once to each recorder".into(), &got);
                            }
                        }
                    }
                    Kind::Gauge => {
                        let h = rec.register_gauge(&key, &md);
                        let got = doubles::take_log(&log);
                        if !check_reg(&mut rep, &got, &mut handle_of) {
                            continue;
                        }
                        for _ in 0..nupd {
                            let v = *r.pick(&[0.0f64, 1.5, -2.0, f64::INFINITY]);
                            let which = r.below(3);
                            match which {
                                0 => h.increment(v),
                                1 => h.decrement(v),
                                _ => h.set(v),
                            }
                            let got = doubles::take_log(&log);
                            let mut exp: Vec<(u32, Op)> = handle_of
                                .iter()
                                .map(|(l, hid)| {
                                    (*l, match which {
                                        0 => Op::GaugeInc { handle: *hid, v: v.to_bits() },
                                        1 => Op::GaugeDec { handle: *hid, v: v.to_bits() },
                                        _ => Op::GaugeSet { handle: *hid, v: v.to_bits() },
                                    })
                                })
                                .collect();
                            let mut g: Vec<(u32, Op)> = got.iter().map(|x| (x.rec, x.op.clone())).collect();
                            exp.sort_by_key(|x| x.0);
                            g.sort_by_key(|x| x.0);
                            if g != exp {
                                fail(&mut rep, "C13:update-misdelivered:gauge", "gauge update through the returned handle not delivered exactly once to each recorder".into(), &got);
                            }
                        }
                    }
                    Kind::Histogram => {
                        let h = rec.register_histogram(&key, &md);
                        let got = doubles::take_log(&log);
                        if !check_reg(&mut rep, &got, &mut handle_of) {
                            continue;
                        }
                        for _ in 0..nupd {
                            let v = *r.pick(&[0.0f64, 0.25, -1.0, 1e300]);
                            let n = if r.chance(1, 2) { 1 } else { r.usize(4) };
                            let many = r.chance(1, 2);
                            if many {
                                h.record_many(v, n)
                            } else {
                                h.record(v)
                            }
                            let cnt = if many { n } else { 1 };
                            let got = doubles::take_log(&log);
                            // total samples delivered per leaf (record or record_many forms both accepted)
                            let mut per: std::collections::BTreeMap<u32, usize> = std::collections::BTreeMap::new();
                            let mut ok = true;
                            for x in &got {
                                match &x.op {
                                    Op::HistRecord { handle, v: vb } => {
                                        if *vb != v.to_bits() || !handle_of.contains(&(x.rec, *handle)) {
                                            ok = false;
                                        }
                                        *per.entry(x.rec).or_insert(0) += 1;
                                    }
                                    Op::HistRecordMany { handle, v: vb, n: nn } => {
                                        if *vb != v.to_bits() || !handle_of.contains(&(x.rec, *handle)) {
                                            ok = false;
                                        }
                                        *per.entry(x.rec).or_insert(0) += *nn;
                                    }
                                    _ => ok = false,
                                }
                            }
                            let mut exp: std::collections::BTreeMap<u32, usize> = std::collections::BTreeMap::new();
                            if cnt > 0 {
                                for (l, _) in &handle_of {
                                    *exp.entry(*l).or_insert(0) += cnt;
                                }
                            }
                            per.retain(|_, c| *c > 0);
                            if !ok || per != exp {
                                fail(&mut rep, "C13:update-misdelivered:histogram", format!("histogram record{} not delivered the right number of times to each recorder (expected {} each)", if many { "_many" } else { "" }, cnt), &got);
                            }
                        }
                    }
                }
            }
            if rep.want_sample() && nontrivial && !expect.is_empty() {
                rep.sample(jo! {"stack" => node_json(&tree), "op" => if is_describe {"describe"} else {"register+updates"}, "kind" => kind.name(), "name" => name.clone(),
                "delivered_to" => J::A(expect.iter().map(|(l, n)| J::s(format!("leaf{}:{}", l, n))).collect())});
            }
        }
    }
    Some(rep)
}
