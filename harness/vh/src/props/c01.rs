//! C01 — emissions reach exactly the recorder in scope, never one whose scope ended.
use crate::doubles::{self, Kind, LogRecorder, Op, Rec};
use crate::rt::{self, fnv, mix, Args, Report, Rng, J};
use metrics::{Label, Level, LocalRecorderGuard, Unit};
use std::cell::RefCell;
use std::collections::BTreeMap;
use std::sync::atomic::Ordering;

const MODPATH: &str = module_path!();

#[derive(Clone, Debug)]
pub struct Expect {
    kind: Kind,
    describe: bool,
    name: String,
    labels: Vec<(String, String)>,
    target: String,
    level: u8,
    unit: Option<Unit>,
    desc: String,
    form: &'static str,
}

fn ex(kind: Kind, form: &'static str, name: &str, labels: &[(&str, &str)], target: Option<&str>, level: u8) -> Expect {
    Expect {
        kind,
        describe: false,
        name: name.into(),
        labels: labels.iter().map(|(a, b)| (a.to_string(), b.to_string())).collect(),
        target: target.unwrap_or(MODPATH).to_string(),
        level,
        unit: None,
        desc: String::new(),
        form,
    }
}
fn exd(kind: Kind, form: &'static str, name: &str, unit: Option<Unit>, desc: &str) -> Expect {
    Expect { kind, describe: true, name: name.into(), labels: vec![], target: String::new(), level: 2, unit, desc: desc.into(), form }
}

const CK: &str = "ck";
const CV: &str = "cv";

/// One emission through a macro form; returns what the call site spelled. The update through the returned
/// handle is performed by the caller via the returned closure-free enum.
pub enum Handle {
    C(metrics::Counter),
    G(metrics::Gauge),
    H(metrics::Histogram),
    None,
}

// The form table is written out per kind with a local macro to keep every macro shape literal at the call site.
macro_rules! forms_for_kind {
    ($fname:ident, $mac:ident, $kind:expr, $wrap:expr) => {
        fn $fname(form: usize, dynval: &str) -> (Expect, Handle) {
            let k = $kind;
            let w = $wrap;
            match form {
                0 => (ex(k, "lit", "lit_name", &[], None, 2), w(metrics::$mac!("lit_name"))),
                1 => {
                    let n = format!("dyn_{}", dynval);
                    (ex(k, "string-name", &n, &[], None, 2), w(metrics::$mac!(n.clone())))
                }
                2 => (ex(k, "lit+lit-labels", "ln", &[("k", "v"), ("k2", "v2")], None, 2), w(metrics::$mac!("ln", "k" => "v", "k2" => "v2"))),
                3 => {
                    let n = format!("dn_{}", dynval);
                    (ex(k, "expr-name+lit-labels", &n, &[("k", "v")], None, 2), w(metrics::$mac!(n.clone(), "k" => "v")))
                }
                4 => {
                    let v = format!("val_{}", dynval);
                    (ex(k, "lit+computed-label", "lc", &[("k", &v), ("z", "9")], None, 2), w(metrics::$mac!("lc", "k" => v.clone(), "z" => "9")))
                }
                5 => {
                    let pairs = [("a".to_string(), "1".to_string()), ("b".to_string(), dynval.to_string())];
                    (ex(k, "slice-of-pairs", "sp", &[("a", "1"), ("b", dynval)], None, 2), w(metrics::$mac!("sp", &pairs[..])))
                }
                6 => {
                    let v = vec![Label::new("x", dynval.to_string()), Label::new("y", "2")];
                    (ex(k, "vec-labels", "vl", &[("x", dynval), ("y", "2")], None, 2), w(metrics::$mac!("vl", v)))
                }
                7 => {
                    let v = vec![Label::new("i", "1"), Label::new("j", dynval.to_string())];
                    (ex(k, "label-iter", "li", &[("i", "1"), ("j", dynval)], None, 2), w(metrics::$mac!("li", v.iter())))
                }
                8 => {
                    let mut m = BTreeMap::new();
                    m.insert("bk".to_string(), dynval.to_string());
                    m.insert("ak".to_string(), "av".to_string());
                    (ex(k, "btreemap", "bm", &[("ak", "av"), ("bk", dynval)], None, 2), w(metrics::$mac!("bm", &m)))
                }
                9 => (ex(k, "target", "tn", &[], Some("custom::target"), 2), w(metrics::$mac!(target: "custom::target", "tn"))),
                10 => (ex(k, "level", "lvn", &[("k", "v")], None, 1), w(metrics::$mac!(level: Level::DEBUG, "lvn", "k" => "v"))),
                11 => {
                    let n = format!("tl_{}", dynval);
                    let v = vec![Label::new("q", "r")];
                    (ex(k, "target+level+expr", &n, &[("q", "r")], Some("t2"), 3), w(metrics::$mac!(target: "t2", level: Level::WARN, n.clone(), v)))
                }
                12 => (ex(k, "trailing-comma", "tc", &[], None, 2), w(metrics::$mac!("tc",))),
                13 => (ex(k, "trailing-comma-labels", "tcl", &[("k", "v")], None, 2), w(metrics::$mac!("tcl", "k" => "v",))),
                14 => (ex(k, "const-expr-labels", "ce", &[(CK, CV)], None, 2), w(metrics::$mac!("ce", CK => CV))),
                15 => (ex(k, "level-error+target", "le", &[("a", "b"), ("c", "d"), ("e", "f")], Some("tt"), 4), w(metrics::$mac!(target: "tt", level: Level::ERROR, "le", "a" => "b", "c" => "d", "e" => "f"))),
                16 => (ex(k, "level-trace", "lt", &[], None, 0), w(metrics::$mac!(level: Level::TRACE, "lt"))),
                _ => {
                    let v = format!("w_{}", dynval);
                    (ex(k, "mixed-lit-key-computed-values", "mx", &[("p", "q"), ("r", &v)], Some("t3"), 2), w(metrics::$mac!(target: "t3", "mx", "p" => "q", "r" => v.clone())))
                }
            }
        }
    };
}
forms_for_kind!(emit_counter, counter, Kind::Counter, Handle::C);
forms_for_kind!(emit_gauge, gauge, Kind::Gauge, Handle::G);
forms_for_kind!(emit_histogram, histogram, Kind::Histogram, Handle::H);
pub const NFORMS: usize = 18;

macro_rules! describes_for_kind {
    ($fname:ident, $mac:ident, $kind:expr) => {
        fn $fname(form: usize, dynval: &str) -> (Expect, Handle) {
            let k = $kind;
            match form {
                0 => {
                    metrics::$mac!("dname", "some description");
                    (exd(k, "describe", "dname", None, "some description"), Handle::None)
                }
                1 => {
                    metrics::$mac!("duname", Unit::Bytes, "with unit");
                    (exd(k, "describe+unit", "duname", Some(Unit::Bytes), "with unit"), Handle::None)
                }
                2 => {
                    let n = format!("dd_{}", dynval);
                    let d = format!("desc {}", dynval);
                    metrics::$mac!(n.clone(), Unit::Seconds, d.clone(),);
                    (exd(k, "describe+unit+string+trailing-comma", &n, Some(Unit::Seconds), &d), Handle::None)
                }
                _ => {
                    let n = format!("de_{}", dynval);
                    metrics::$mac!(n.clone(), "",);
                    (exd(k, "describe-string-empty-desc", &n, None, ""), Handle::None)
                }
            }
        }
    };
}
describes_for_kind!(desc_counter, describe_counter, Kind::Counter);
describes_for_kind!(desc_gauge, describe_gauge, Kind::Gauge);
describes_for_kind!(desc_histogram, describe_histogram, Kind::Histogram);
pub const NDESC: usize = 4;

#[derive(Clone, Debug)]
enum P {
    Install(usize),
    DropGuard(usize),
    Forget(usize),
    With(usize, Vec<P>),
    WithReturningGuard(usize, usize),
    /// with_local_recorder whose closure works on the *enclosing* guard list: it can end outer installations while it
    /// runs and leave its own guards alive when it returns
    WithShared(usize, Vec<P>),
    Emit(u8, bool, usize), // kind, describe, form
    Panic,
    Catch(Vec<P>),
}

fn gen_prog(r: &mut Rng, depth: u32, len: usize, nrec: usize, allow_forget: bool, allow_nonlifo: bool) -> Vec<P> {
    let mut v = Vec::new();
    for _ in 0..len {
        let c = r.below(20);
        v.push(match c {
            0..=7 => P::Emit(r.below(3) as u8, r.chance(1, 5), r.usize(NFORMS)),
            8 | 9 | 10 => P::Install(r.usize(nrec)),
            11 | 12 | 13 => P::DropGuard(if allow_nonlifo { r.usize(8) } else { usize::MAX }),
            14 if allow_forget => P::Forget(r.usize(8)),
            15 | 16 if depth > 0 => {
                let l = 1 + r.usize(6);
                P::With(r.usize(nrec), gen_prog(r, depth - 1, l, nrec, allow_forget, allow_nonlifo))
            }
            17 if depth > 0 && allow_nonlifo => P::WithReturningGuard(r.usize(nrec), r.usize(nrec)),
            18 if depth > 0 => {
                let l = 1 + r.usize(6);
                let mut body = gen_prog(r, depth - 1, l, nrec, allow_forget, allow_nonlifo);
                if r.chance(2, 3) {
                    // place a panic somewhere, possibly nested inside a With
                    let at = r.usize(body.len() + 1);
                    if r.chance(1, 2) && depth > 1 {
                        body.insert(at, P::With(r.usize(nrec), vec![P::Emit(0, false, 0), P::Install(r.usize(nrec)), P::Panic]));
                    } else {
                        body.insert(at, P::Panic);
                    }
                }
                P::Catch(body)
            }
            19 if depth > 0 && allow_nonlifo => {
                let l = 1 + r.usize(5);
                P::WithShared(r.usize(nrec), gen_prog(r, depth - 1, l, nrec, allow_forget, allow_nonlifo))
            }
            _ => P::Emit(r.below(3) as u8, false, r.usize(NFORMS)),
        });
    }
    v
}

fn prog_hash(p: &[P]) -> u64 {
    let mut h = 7u64;
    for x in p {
        h = match x {
            P::Install(a) => mix(h, 1 + *a as u64 * 16),
            P::DropGuard(a) => mix(h, 2 + (*a as u64 & 0xff) * 16),
            P::Forget(a) => mix(h, 3 + *a as u64 * 16),
            P::With(a, b) => mix(mix(h, 4 + *a as u64 * 16), prog_hash(b)),
            P::WithShared(a, b) => mix(mix(h, 10 + *a as u64 * 16), prog_hash(b)),
            P::WithReturningGuard(a, b) => mix(h, 5 + *a as u64 * 16 + *b as u64 * 256),
            P::Emit(k, d, f) => mix(h, 6 + (*k as u64) * 16 + (*d as u64) * 64 + (*f as u64) * 128),
            P::Panic => mix(h, 8),
            P::Catch(b) => mix(mix(h, 9), prog_hash(b)),
        };
    }
    h
}

#[derive(Clone, Copy, Debug, PartialEq)]
enum Ended {
    Live,
    GuardDropped,
    ClosureReturned,
    Unwound,
    Forgotten,
}

struct Inst {
    rec: usize,
    ended: Ended,
}

struct Recs {
    /// logical mode: arena of 'static recorders; real-free mode: boxes freed when no live install refers to them
    slots: Vec<Option<*mut LogRecorder>>,
    real_free: bool,
    log: doubles::Log,
    base_id: u32,
    frees: u64,
}

impl Recs {
    fn get(&mut self, i: usize) -> &'static LogRecorder {
        if self.slots[i].is_none() {
            let b = Box::new(LogRecorder::new(self.base_id + i as u32, &self.log));
            self.slots[i] = Some(Box::into_raw(b));
        }
        let r: &'static LogRecorder = unsafe { &*self.slots[i].unwrap() };
        r.in_scope.store(true, Ordering::SeqCst);
        r
    }
}

struct St {
    recs: Recs,
    installs: Vec<Inst>,
    forgot: bool,
    thread: u64,
    has_global: bool,
    global_log: doubles::Log,
    viol: Vec<(String, J)>,
    nontrivial: bool,
    emits: u64,
    dyn_ctr: u64,
    trace: Vec<String>,
}

impl St {
    fn current(&self) -> Option<usize> {
        self.installs.iter().rposition(|i| i.ended == Ended::Live)
    }
    fn install(&mut self, rec: usize) -> usize {
        self.installs.push(Inst { rec, ended: Ended::Live });
        self.installs.len() - 1
    }
    fn end(&mut self, id: usize, how: Ended) {
        if self.installs[id].ended == Ended::Live {
            self.installs[id].ended = how;
        }
        self.after_end();
    }
    /// The model says a recorder's borrow ended when no live install refers to it any more.
    fn after_end(&mut self) {
        let n = self.recs.slots.len();
        for rec in 0..n {
            let live = self.installs.iter().any(|i| i.rec == rec && i.ended == Ended::Live);
            if !live {
                if let Some(rp) = self.recs.slots[rec] {
                    let r: &LogRecorder = unsafe { &*rp };
                    let forgotten = self.installs.iter().any(|i| i.rec == rec && i.ended == Ended::Forgotten);
                    r.in_scope.store(false, Ordering::SeqCst);
                    if self.recs.real_free && !forgotten && !self.forgot {
                        // really free it: any later dispatch to it is a true memory error (ASan / Miri see it)
                        unsafe {
                            drop(Box::from_raw(rp));
                        }
                        self.recs.slots[rec] = None;
                        self.recs.frees += 1;
                    }
                }
            }
        }
    }
    fn how_ended(&self, rec_id: u32) -> Option<Ended> {
        let rec = (rec_id - self.recs.base_id) as usize;
        let mut how = None;
        let mut forgotten = false;
        for i in &self.installs {
            if i.rec == rec {
                if i.ended == Ended::Live {
                    return None;
                }
                forgotten |= i.ended == Ended::Forgotten;
                how = Some(i.ended);
            }
        }
        // a leaked guard of this recorder is the installation that can still be in force
        if forgotten {
            return Some(Ended::Forgotten);
        }
        how
    }
}

struct PanicMarker;

type Guards = Vec<(usize, LocalRecorderGuard<'static>)>;

fn exec(p: &[P], st: &RefCell<St>, guards: &mut Guards) {
    for op in p {
        match op {
            P::Install(rec) => {
                let r = st.borrow_mut().recs.get(*rec);
                let id = st.borrow_mut().install(*rec);
                let g = metrics::set_default_local_recorder(r);
                guards.push((id, g));
                st.borrow_mut().trace.push(format!("install r{} (#{})", rec, id));
            }
            P::DropGuard(which) => {
                if guards.is_empty() {
                    continue;
                }
                let idx = if *which == usize::MAX { guards.len() - 1 } else { *which % guards.len() };
                if idx != guards.len() - 1 {
                    st.borrow_mut().nontrivial = true;
                }
                let (id, g) = guards.remove(idx);
                drop(g);
                let mut s = st.borrow_mut();
                s.trace.push(format!("drop guard #{}", id));
                s.end(id, Ended::GuardDropped);
            }
            P::Forget(which) => {
                if guards.is_empty() {
                    continue;
                }
                let idx = *which % guards.len();
                let (id, g) = guards.remove(idx);
                std::mem::forget(g);
                let mut s = st.borrow_mut();
                s.nontrivial = true;
                s.forgot = true;
                s.trace.push(format!("forget guard #{}", id));
                s.end(id, Ended::Forgotten);
            }
            P::With(rec, body) => {
                let r = st.borrow_mut().recs.get(*rec);
                let id = st.borrow_mut().install(*rec);
                st.borrow_mut().trace.push(format!("with r{} (#{}) {{", rec, id));
                let mark = st.borrow().installs.len();
                metrics::with_local_recorder(r, || {
                    let mut local: Guards = Vec::new();
                    exec(body, st, &mut local);
                    // guards still alive at the end of the closure are dropped front-to-back (Vec order)
                    if local.len() > 1 {
                        st.borrow_mut().nontrivial = true;
                    }
                    drop(local);
                });
                let mut s = st.borrow_mut();
                for i in mark..s.installs.len() {
                    if s.installs[i].ended == Ended::Live {
                        s.installs[i].ended = Ended::GuardDropped;
                    }
                }
                s.trace.push("}".into());
                s.end(id, Ended::ClosureReturned);
            }
            P::WithShared(rec, body) => {
                let r = st.borrow_mut().recs.get(*rec);
                let id = st.borrow_mut().install(*rec);
                {
                    let mut s = st.borrow_mut();
                    s.nontrivial = true;
                    s.trace.push(format!("with r{} (#{}) sharing the enclosing guards {{", rec, id));
                }
                metrics::with_local_recorder(r, || exec(body, st, guards));
                let mut s = st.borrow_mut();
                s.trace.push("}".into());
                s.end(id, Ended::ClosureReturned);
            }
            P::WithReturningGuard(outer, inner) => {
                let ro = st.borrow_mut().recs.get(*outer);
                let ri = st.borrow_mut().recs.get(*inner);
                let ido = st.borrow_mut().install(*outer);
                let idi = st.borrow_mut().install(*inner);
                let g = metrics::with_local_recorder(ro, || metrics::set_default_local_recorder(ri));
                guards.push((idi, g));
                let mut s = st.borrow_mut();
                s.nontrivial = true;
                s.trace.push(format!("guard #{} for r{} escapes with r{} (#{})", idi, inner, outer, ido));
                s.end(ido, Ended::ClosureReturned);
            }
            P::Emit(kind, describe, form) => emit(st, *kind, *describe, *form),
            P::Panic => {
                st.borrow_mut().trace.push("panic!".into());
                std::panic::panic_any(PanicMarker);
            }
            P::Catch(body) => {
                let mark = st.borrow().installs.len();
                st.borrow_mut().trace.push("catch_unwind {".into());
                let res = std::panic::catch_unwind(std::panic::AssertUnwindSafe(|| {
                    let mut local: Guards = Vec::new();
                    exec(body, st, &mut local);
                    drop(local);
                }));
                let mut s = st.borrow_mut();
                let how = if res.is_err() { Ended::Unwound } else { Ended::GuardDropped };
                if res.is_err() {
                    s.nontrivial = true;
                }
                for i in mark..s.installs.len() {
                    if s.installs[i].ended == Ended::Live {
                        s.installs[i].ended = how;
                    }
                }
                s.trace.push(if res.is_err() { "} -> caught".into() } else { "}".into() });
                s.after_end();
            }
        }
    }
}

fn emit(st: &RefCell<St>, kind: u8, describe: bool, form: usize) {
    let dynval = {
        let mut s = st.borrow_mut();
        s.dyn_ctr += 1;
        s.emits += 1;
        format!("{}", s.dyn_ctr % 3)
    };
    let (exp, handle) = match (kind, describe) {
        (0, false) => emit_counter(form, &dynval),
        (1, false) => emit_gauge(form, &dynval),
        (_, false) => emit_histogram(form, &dynval),
        (0, true) => desc_counter(form % NDESC, &dynval),
        (1, true) => desc_gauge(form % NDESC, &dynval),
        (_, true) => desc_histogram(form % NDESC, &dynval),
    };
    // one update through the returned handle: must reach the same recorder
    match &handle {
        Handle::C(c) => c.increment(3),
        Handle::G(g) => g.set(1.5),
        Handle::H(h) => h.record(2.5),
        Handle::None => {}
    }
    let mut s = st.borrow_mut();
    let thread = s.thread;
    let mut got: Vec<Rec> = doubles::take_log(&s.recs.log);
    {
        let mut gl = s.global_log.lock().unwrap();
        let mut keep = Vec::new();
        for x in gl.drain(..) {
            if x.thread == thread {
                got.push(x);
            } else {
                keep.push(x);
            }
        }
        *gl = keep;
    }
    let cur = s.current();
    let expected_rec: Option<u32> = match cur {
        Some(i) => Some(s.recs.base_id + s.installs[i].rec as u32),
        None => {
            if s.has_global {
                Some(0)
            } else {
                None
            }
        }
    };
    s.trace.push(format!("emit {}{}:{} -> expect {:?}", if describe { "describe_" } else { "" }, exp.kind.name(), exp.form, expected_rec));
    let trace_tail = |s: &St| J::A(s.trace.iter().rev().take(14).rev().map(|x| J::s(x.clone())).collect());
    // clause: never dispatched to a recorder whose borrow ended / never visible to another thread
    for x in &got {
        if x.thread != thread {
            let d = jo! {"what" => "a local recorder received a call from another thread", "rec" => x.rec as u64, "trace" => trace_tail(&s)};
            s.viol.push(("C01:cross-thread-visibility".into(), d));
        }
        if x.rec != 0 {
            if let Some(how) = s.how_ended(x.rec) {
                let d = jo! {"what" => "an emission was dispatched to a recorder after the borrow that installed it had ended", "recorder" => x.rec as u64,
                "how_its_scope_ended" => format!("{:?}", how), "op" => x.op.to_json(), "trace" => trace_tail(&s)};
                s.viol.push((format!("C01:dispatch-after-borrow-ended:{:?}", how), d));
            } else if !x.in_scope {
                let d = jo! {"what" => "recorder flagged out of scope received a call", "recorder" => x.rec as u64, "trace" => trace_tail(&s)};
                s.viol.push(("C01:dispatch-after-borrow-ended:flag".into(), d));
            }
        }
    }
    if s.forgot {
        // after a leak the property does not say where emissions go: only the clause above is judged
        return;
    }
    let nexp = if expected_rec.is_some() { if describe { 1 } else { 2 } } else { 0 };
    let recs_seen: Vec<u32> = got.iter().map(|x| x.rec).collect();
    if got.len() != nexp || recs_seen.iter().any(|r| Some(*r) != expected_rec) {
        let sig = if got.len() > nexp && recs_seen.iter().all(|r| Some(*r) == expected_rec) {
            "C01:duplicate-delivery"
        } else if got.len() < nexp && recs_seen.iter().all(|r| Some(*r) == expected_rec) {
            "C01:missing-delivery"
        } else {
            "C01:wrong-recorder"
        };
        let d = jo! {"what" => "emission not delivered exactly once to the innermost recorder in scope (else global, else no-op)",
        "expected_recorder" => format!("{:?}", expected_rec), "got_recorders" => J::A(recs_seen.iter().map(|r| J::U(*r as u64)).collect()),
        "form" => exp.form, "trace" => trace_tail(&s)};
        s.viol.push((sig.into(), d));
        return;
    }
    if nexp == 0 {
        return;
    }
    // fields as spelled at the call site
    let ok = match &got[0].op {
        Op::Describe { kind: k, name, unit, desc } => exp.describe && *k == exp.kind && *name == exp.name && *unit == exp.unit && *desc == exp.desc,
        Op::Register { kind: k, key, target, level, module_path, handle } => {
            let mut ok = !exp.describe
                && *k == exp.kind
                && key.name == exp.name
                && key.labels == exp.labels
                && *target == exp.target
                && *level == exp.level
                && module_path.as_deref() == Some(MODPATH);
            // the handle update
            ok &= match (&got[1].op, exp.kind) {
                (Op::CounterInc { handle: h2, v: 3 }, Kind::Counter) => h2 == handle,
                (Op::GaugeSet { handle: h2, v }, Kind::Gauge) => h2 == handle && *v == 1.5f64.to_bits(),
                (Op::HistRecord { handle: h2, v }, Kind::Histogram) => h2 == handle && *v == 2.5f64.to_bits(),
                _ => false,
            };
            ok
        }
        _ => false,
    };
    if !ok {
        let d = jo! {"what" => "the recorder received name/labels/level/target/unit/description different from what the call site spelled",
        "form" => exp.form, "kind" => exp.kind.name(), "expected" => format!("{:?}", exp), "got" => J::A(got.iter().map(|x| x.op.to_json()).collect())};
        s.viol.push((format!("C01:fields-altered:{}{}", if exp.describe { "describe:" } else { "" }, exp.form), d));
    }
}

pub fn run(a: &Args) -> Option<Report> {
    match a.leg.as_str() {
        "late-global" => return Some(run_late_global(a)),
        "global-race" => return Some(run_global_race(a)),
        "native" | "native-global" | "asan" | "miri" => {}
        _ => return None,
    }
    rt::quiet_panics();
    let mut rep = Report::new("C01", &a.leg, a.seed);
    guard_thread_affinity(&mut rep);
    let mut r = Rng::new(a.shard_seed());
    let miri = cfg!(miri);
    let real_free = a.leg == "asan" || a.leg == "miri";
    let with_global = a.leg == "native-global";
    let global_log = doubles::new_log();
    if with_global {
        let g = LogRecorder::new(0, &global_log);
        if metrics::set_global_recorder(g).is_err() {
            rep.inconclusive("could not install global double");
        }
        // a second installation is refused and must leave the first one in force for every emission that follows
        let spare_log = doubles::new_log();
        if metrics::set_global_recorder(LogRecorder::new(7, &spare_log)).is_ok() {
            rep.violation("C01:second-global-install-accepted", jo! {"what" => "set_global_recorder succeeded although a global recorder was already installed"});
        }
    }
    let programs = if miri { 3 } else { a.budget(2000, 200_000) };
    let mut form_cov: std::collections::BTreeSet<(u8, bool, usize)> = std::collections::BTreeSet::new();
    for pi in 0..programs {
        let nthreads = if miri { 1 + (pi % 2) as usize } else { 1 + r.usize(4) };
        let mut handles = Vec::new();
        for t in 0..nthreads {
            let seed = r.next_u64();
            let gl = global_log.clone();
            let tid = pi * 16 + t as u64 + 1;
            let depth = if miri { 3 } else { 1 + r.below(5) as u32 };
            let len = if miri { 14 } else { 4 + r.usize(30) };
            // real-free legs only run histories the model deems safe for a correct library: no forget
            let allow_forget = !real_free && r.chance(1, 4);
            let allow_nonlifo = r.chance(3, 4);
            handles.push(std::thread::spawn(move || {
                let mut r = Rng::new(seed);
                doubles::set_thread_tag(tid);
                let prog = gen_prog(&mut r, depth, len, 4, allow_forget, allow_nonlifo);
                let st = RefCell::new(St {
                    recs: Recs { slots: vec![None; 4], real_free, log: doubles::new_log(), base_id: (tid as u32) * 8, frees: 0 },
                    installs: Vec::new(),
                    forgot: false,
                    thread: tid,
                    has_global: with_global,
                    global_log: gl,
                    viol: Vec::new(),
                    nontrivial: false,
                    emits: 0,
                    dyn_ctr: seed % 7,
                    trace: Vec::new(),
                });
                let mut guards: Guards = Vec::new();
                let res = std::panic::catch_unwind(std::panic::AssertUnwindSafe(|| exec(&prog, &st, &mut guards)));
                // top-level: drop remaining guards in a random order
                while !guards.is_empty() {
                    let i = r.usize(guards.len());
                    let (id, g) = guards.remove(i);
                    drop(g);
                    st.borrow_mut().end(id, Ended::GuardDropped);
                }
                if res.is_err() {
                    let mut s = st.borrow_mut();
                    for i in 0..s.installs.len() {
                        if s.installs[i].ended == Ended::Live {
                            s.installs[i].ended = Ended::Unwound;
                        }
                    }
                    s.after_end();
                }
                // after every scope ended: emissions must reach no local recorder
                emit(&st, 0, false, 0);
                emit(&st, 1, true, 1);
                let s = st.into_inner();
                let mut forms = Vec::new();
                fn collect(p: &[P], out: &mut Vec<(u8, bool, usize)>) {
                    for x in p {
                        match x {
                            P::Emit(k, d, f) => out.push((*k, *d, if *d { *f % NDESC } else { *f })),
                            P::With(_, b) | P::Catch(b) => collect(b, out),
                            _ => {}
                        }
                    }
                }
                collect(&prog, &mut forms);
                (prog_hash(&prog), s.nontrivial, s.viol, s.emits, s.trace, forms, s.recs.frees, s.forgot)
            }));
        }
        let mut multi = nthreads > 1;
        for h in handles {
            match h.join() {
                Ok((ph, nontrivial, viol, emits, trace, forms, frees, forgot)) => {
                    rep.case(ph, nontrivial || multi);
                    multi = false;
                    rep.count("emissions", emits);
                    rep.count("recorders_really_freed", frees);
                    if forgot {
                        rep.count("programs_with_forget", 1);
                    }
                    for f in forms {
                        form_cov.insert(f);
                    }
                    let mut seen = std::collections::HashSet::new();
                    for (sig, d) in viol {
                        if seen.insert(sig.clone()) {
                            rep.violation(sig, d);
                        }
                    }
                    if rep.want_sample() && nontrivial && emits > 3 {
                        rep.sample(jo! {"threads_in_program" => nthreads, "trace" => J::A(trace.iter().take(40).map(|x| J::s(x.clone())).collect())});
                    }
                }
                Err(_) => rep.inconclusive("harness thread panicked"),
            }
        }
    }
    rep.count("distinct_macro_forms_exercised", form_cov.len() as u64);
    let _ = fnv;
    Some(rep)
}

/// One process = one trial: threads emit before any global recorder exists (no-op), a global recorder is then
/// installed, and the same threads (as well as fresh ones) emit again: every emission outside a local scope made after
/// the installation returned must reach the global recorder, local scopes still win, and earlier ones reach nothing.
// ------------------------------------------------------------------------------------------
// The guard of a thread-local installation must not be able to leave its thread: all bookkeeping is per thread, so a
// guard dropped elsewhere would leave its recorder installed after its end and end somebody else's scope. This is a
// property of the type; it is observed here without failing to compile either way (an inherent method that exists only
// for Send types shadows a trait method of the same name).
// ------------------------------------------------------------------------------------------
struct SendProbe<T>(std::marker::PhantomData<T>);
trait NotSendFallback {
    fn can_cross_threads(&self) -> bool {
        false
    }
}
impl<T> NotSendFallback for SendProbe<T> {}
impl<T: Send> SendProbe<T> {
    fn can_cross_threads(&self) -> bool {
        true
    }
}

fn guard_thread_affinity(rep: &mut Report) {
    let sendable = SendProbe::<metrics::LocalRecorderGuard<'static>>(std::marker::PhantomData).can_cross_threads();
    rep.case(mix(0xC01, sendable as u64), true);
    if sendable {
        rep.violation("C01:guard-can-leave-its-thread", jo! {"what" => "LocalRecorderGuard is Send: a guard moved to and dropped on another thread leaves its recorder installed on the creating thread after the guard's end and removes an installation of the thread it is dropped on"});
    }
}

/// Miri / TSan: an emission on a thread without a local recorder racing the installation of the global recorder, with
/// no synchronisation from the harness: the tool decides (data race on the cell's slot), the log only has to be sane.
fn run_global_race(a: &Args) -> Report {
    let mut rep = Report::new("C01", &a.leg, a.seed);
    let log = doubles::new_log();
    let g = LogRecorder::new(0, &log);
    let emitters: Vec<_> = (0..2)
        .map(|_| {
            std::thread::spawn(|| {
                let mut n = 0u64;
                for _ in 0..if cfg!(miri) { 12 } else { 20_000 } {
                    let _ = metrics::counter!("raced");
                    n += 1;
                    std::thread::yield_now();
                }
                n
            })
        })
        .collect();
    std::thread::yield_now();
    let installed = metrics::set_global_recorder(g).is_ok();
    let mut emitted = 0u64;
    for e in emitters {
        emitted += e.join().unwrap_or(0);
    }
    let delivered = doubles::take_log(&log).len() as u64;
    rep.case(mix(emitted, delivered), true);
    if !installed || delivered > emitted {
        rep.violation("C01:wrong-recorder", jo! {"what" => "global installation failed in a fresh process, or more deliveries than emissions", "installed" => installed, "emitted" => emitted, "delivered" => delivered});
    }
    rep.sample(jo! {"global_install_raced_by_emitters" => true, "emitted" => emitted, "delivered_after_install" => delivered});
    rep
}

fn run_late_global(a: &Args) -> Report {
    let mut rep = Report::new("C01", &a.leg, a.seed);
    let mut r = Rng::new(a.shard_seed());
    let global_log = doubles::new_log();
    let nthreads = 1 + r.usize(4);
    let before = 1 + r.usize(5);
    let after = 1 + r.usize(5);
    let phase = std::sync::Arc::new(std::sync::Barrier::new(nthreads + 1));
    let mut hs = Vec::new();
    for t in 0..nthreads {
        let phase = phase.clone();
        let uses_local_first = r.chance(1, 2);
        hs.push(std::thread::spawn(move || {
            doubles::set_thread_tag(100 + t as u64);
            let local_log = doubles::new_log();
            let local = LogRecorder::new(50 + t as u32, &local_log);
            // phase 1: no global recorder yet
            for i in 0..before {
                if uses_local_first && i == 0 {
                    metrics::with_local_recorder(&local, || {
                        let _ = metrics::counter!("early_local");
                    });
                } else {
                    let _ = metrics::counter!("early");
                    metrics::describe_gauge!("early_g", "d");
                }
            }
            phase.wait(); // main installs the global recorder
            phase.wait();
            // phase 2: same thread, after the installation returned
            for _ in 0..after {
                let c = metrics::counter!("late_same_thread");
                c.increment(1);
                metrics::with_local_recorder(&local, || {
                    let _ = metrics::gauge!("late_local");
                });
            }
            doubles::take_log(&local_log).len()
        }));
    }
    phase.wait();
    let g = LogRecorder::new(0, &global_log);
    let installed = metrics::set_global_recorder(g).is_ok();
    // half of the processes also see a refused second installation before the threads go on
    if a.shard % 2 == 1 {
        let spare_log = doubles::new_log();
        let _ = metrics::set_global_recorder(LogRecorder::new(7, &spare_log));
    }
    phase.wait();
    let mut local_total = 0;
    for h in hs {
        local_total += h.join().unwrap();
    }
    // a fresh thread after the install
    std::thread::spawn(|| {
        doubles::set_thread_tag(999);
        let _ = metrics::histogram!("late_fresh_thread");
    })
    .join()
    .unwrap();
    let got = doubles::take_log(&global_log);
    rep.case(mix(nthreads as u64, mix(before as u64, after as u64)), true);
    rep.case(mix(a.shard, 7), true);
    if !installed {
        rep.inconclusive("global recorder already installed");
        return rep;
    }
    let early: usize = got.iter().filter(|x| matches!(&x.op, Op::Register { key, .. } if key.name.starts_with("early")) || matches!(&x.op, Op::Describe { name, .. } if name.starts_with("early"))).count();
    if early > 0 {
        rep.violation("C01:emission-before-install-reached-global", jo! {"what" => "an emission made before any global recorder was installed was delivered to the global recorder", "count" => early});
    }
    for t in 0..nthreads {
        let regs = got.iter().filter(|x| x.thread == 100 + t as u64 && matches!(&x.op, Op::Register { key, .. } if key.name == "late_same_thread")).count();
        let incs = got.iter().filter(|x| x.thread == 100 + t as u64 && matches!(&x.op, Op::CounterInc { .. })).count();
        if regs != after || incs != after {
            rep.violation("C01:missing-delivery:global-installed-after-thread-first-emitted", jo! {"what" => "a thread that had emitted before the global recorder existed does not reach the global recorder afterwards (exactly once per emission)", "thread" => t, "expected" => after, "registrations_delivered" => regs, "updates_delivered" => incs, "emissions_before_install" => before});
        }
    }
    if got.iter().filter(|x| matches!(&x.op, Op::Register { key, .. } if key.name == "late_fresh_thread")).count() != 1 {
        rep.violation("C01:missing-delivery", jo! {"what" => "a fresh thread's emission after the install did not reach the global recorder exactly once"});
    }
    if got.iter().any(|x| matches!(&x.op, Op::Register { key, .. } if key.name.ends_with("_local"))) {
        rep.violation("C01:wrong-recorder", jo! {"what" => "an emission inside a local scope reached the global recorder"});
    }
    let expected_local: usize = nthreads * after; // + the optional early_local ones
    if local_total < expected_local {
        rep.violation("C01:missing-delivery", jo! {"what" => "emissions inside local scopes did not reach the local recorder", "delivered" => local_total, "expected_at_least" => expected_local});
    }
    rep.sample(jo! {"late_global_install" => true, "threads" => nthreads, "emissions_before_install_each" => before, "after_each" => after, "delivered_to_global" => got.len()});
    rep
}
