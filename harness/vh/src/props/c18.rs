//! C18 — the scrape endpoint serves the current rendering and enforces its allowlist.
use crate::promparse;
use crate::rt::{self, mix, Args, Report, Rng, J};
use metrics::{Key, Level, Metadata, Recorder};
use metrics_exporter_prometheus::PrometheusBuilder;
use std::io::{Read, Write};
use std::net::{Ipv4Addr, SocketAddr, SocketAddrV4, TcpListener, TcpStream};
use std::os::fd::FromRawFd;
use std::sync::atomic::{AtomicU64, Ordering};
use std::sync::Arc;
use std::time::Duration;

static MD: Metadata<'static> = Metadata::new("c18", Level::INFO, None);

/// TCP connect from a chosen loopback source address (bind before connect).
fn connect_from(src: Ipv4Addr, dst: SocketAddrV4) -> std::io::Result<TcpStream> {
    unsafe {
        let fd = libc::socket(libc::AF_INET, libc::SOCK_STREAM, 0);
        if fd < 0 {
            return Err(std::io::Error::last_os_error());
        }
        let mk = |ip: Ipv4Addr, port: u16| libc::sockaddr_in { sin_family: libc::AF_INET as u16, sin_port: port.to_be(), sin_addr: libc::in_addr { s_addr: u32::from_ne_bytes(ip.octets()) }, sin_zero: [0; 8] };
        let s = mk(src, 0);
        if libc::bind(fd, &s as *const _ as *const libc::sockaddr, std::mem::size_of::<libc::sockaddr_in>() as u32) != 0 {
            let e = std::io::Error::last_os_error();
            libc::close(fd);
            return Err(e);
        }
        let d = mk(*dst.ip(), dst.port());
        if libc::connect(fd, &d as *const _ as *const libc::sockaddr, std::mem::size_of::<libc::sockaddr_in>() as u32) != 0 {
            let e = std::io::Error::last_os_error();
            libc::close(fd);
            return Err(e);
        }
        Ok(TcpStream::from_raw_fd(fd))
    }
}

#[derive(Debug)]
struct Resp {
    status: u16,
    body: Vec<u8>,
}

fn http_get(src: Ipv4Addr, dst: SocketAddrV4, path: &str) -> Result<Resp, String> {
    let mut s = connect_from(src, dst).map_err(|e| format!("connect: {}", e))?;
    s.set_read_timeout(Some(Duration::from_secs(10))).ok();
    s.write_all(format!("GET {} HTTP/1.1\r\nHost: verif\r\nConnection: close\r\n\r\n", path).as_bytes()).map_err(|e| format!("write: {}", e))?;
    let mut buf = Vec::new();
    s.read_to_end(&mut buf).map_err(|e| format!("read: {}", e))?;
    parse_response(&buf)
}

fn parse_response(buf: &[u8]) -> Result<Resp, String> {
    let pos = buf.windows(4).position(|w| w == b"\r\n\r\n").ok_or_else(|| format!("no header terminator in {} bytes", buf.len()))?;
    let head = std::str::from_utf8(&buf[..pos]).map_err(|_| "non-UTF8 headers".to_string())?;
    let mut lines = head.split("\r\n");
    let status_line = lines.next().unwrap_or("");
    let mut sp = status_line.split(' ');
    let ver = sp.next().unwrap_or("");
    if !ver.starts_with("HTTP/1.") {
        return Err(format!("bad status line {:?}", status_line));
    }
    let status: u16 = sp.next().unwrap_or("").parse().map_err(|_| format!("bad status in {:?}", status_line))?;
    let mut clen: Option<usize> = None;
    let mut chunked = false;
    for l in lines {
        let (k, v) = l.split_once(':').ok_or_else(|| format!("bad header {:?}", l))?;
        if k.eq_ignore_ascii_case("content-length") {
            clen = v.trim().parse().ok();
        }
        if k.eq_ignore_ascii_case("transfer-encoding") && v.to_ascii_lowercase().contains("chunked") {
            chunked = true;
        }
    }
    let rest = &buf[pos + 4..];
    let body = if chunked {
        let mut out = Vec::new();
        let mut i = 0;
        loop {
            let e = rest[i..].windows(2).position(|w| w == b"\r\n").ok_or("bad chunk header")? + i;
            let n = usize::from_str_radix(std::str::from_utf8(&rest[i..e]).unwrap_or("x").trim(), 16).map_err(|_| "bad chunk size".to_string())?;
            i = e + 2;
            if n == 0 {
                break;
            }
            if i + n > rest.len() {
                return Err("truncated chunk".into());
            }
            out.extend_from_slice(&rest[i..i + n]);
            i += n + 2;
        }
        out
    } else {
        match clen {
            Some(n) => {
                if rest.len() != n {
                    return Err(format!("content-length {} but {} body bytes", n, rest.len()));
                }
                rest.to_vec()
            }
            None => rest.to_vec(),
        }
    };
    Ok(Resp { status, body })
}

/// Reference CIDR semantics, written independently.
fn parse_entry(e: &str) -> Option<(u32, u32)> {
    // returns (network, mask) for IPv4 entries; None for entries that cannot match an IPv4 peer
    let (ip, bits) = match e.split_once('/') {
        Some((ip, b)) => (ip, b.parse::<u32>().ok()?),
        None => (e, 32),
    };
    let ip: Ipv4Addr = ip.parse().ok()?;
    if bits > 32 {
        return None;
    }
    let mask = if bits == 0 { 0 } else { u32::MAX << (32 - bits) };
    Some((u32::from(ip) & mask, mask))
}
fn allowed_ref(list: &[String], peer: Ipv4Addr) -> bool {
    if list.is_empty() {
        return true;
    }
    list.iter().filter_map(|e| parse_entry(e)).any(|(n, m)| u32::from(peer) & m == n)
}

fn allowed_ref_nonempty(list: &[String], peer: Ipv4Addr) -> bool {
    list.iter().filter_map(|e| parse_entry(e)).any(|(n, m)| u32::from(peer) & m == n)
}

/// Listener ports come from a private range below the kernel's ephemeral range (32768+), partitioned by leg and shard:
/// a port picked by bind-and-release can be in use as the *source* port of some other shard's client socket, which
/// makes a wildcard listener fail with "address in use".
struct Ports {
    base: u16,
    next: u16,
}
impl Ports {
    fn new(a: &Args, leg_slot: u64) -> Ports {
        let slot = (leg_slot * 16 + a.shard % 16) as u16;
        Ports { base: 10_000 + slot * 800, next: (std::process::id() % 800) as u16 }
    }
    fn pick(&mut self) -> u16 {
        self.next = (self.next + 1) % 800;
        self.base + self.next
    }
}

const ENTRIES: &[&str] = &["127.0.0.1", "127.0.0.5", "127.0.0.1/32", "127.0.0.0/30", "127.0.1.0/24", "127.1.0.0/16", "127.0.1.128/25", "10.0.0.0/8", "192.168.7.9", "::1/128", "fd00::/8", "127.0.0.0/8", "0.0.0.0/0"];
const PEERS: &[[u8; 4]] = &[[127, 0, 0, 1], [127, 0, 0, 2], [127, 0, 0, 3], [127, 0, 0, 4], [127, 0, 0, 5], [127, 0, 1, 0], [127, 0, 1, 127], [127, 0, 1, 128], [127, 0, 1, 255], [127, 0, 2, 0], [127, 1, 0, 0], [127, 1, 255, 255], [127, 2, 0, 0], [127, 200, 3, 4]];

/// Reference for IPv6 entries: (network, mask) — None for entries that cannot match an IPv6 peer.
fn parse_entry6(e: &str) -> Option<(u128, u128)> {
    let (ip, bits) = match e.split_once('/') {
        Some((ip, b)) => (ip, b.parse::<u32>().ok()?),
        None => (e, 128),
    };
    let ip: std::net::Ipv6Addr = ip.parse().ok()?;
    if bits > 128 {
        return None;
    }
    let mask = if bits == 0 { 0 } else { u128::MAX << (128 - bits) };
    Some((u128::from(ip) & mask, mask))
}

const ENTRIES6: &[&str] = &["::1", "::1/128", "::/64", "::/127", "::2", "::2/127", "fe80::/10", "2001:db8::/32", "::/0", "::ffff:0:0/96", "0.0.0.0/8", "0.0.0.1", "0.0.0.0/0", "0.0.0.1/32", "127.0.0.1", "127.0.0.0/8", "10.0.0.0/8"];

/// IPv6 listener ([::1]) and the IPv6 loopback as the peer: IPv6 entries are judged as IPv6 networks, IPv4 entries
/// never contain an IPv6 peer.
fn run_v6(a: &Args) -> Report {
    rt::quiet_panics();
    let mut rep = Report::new("C18", &a.leg, a.seed);
    let mut r = Rng::new(a.shard_seed());
    let v6: std::net::Ipv6Addr = "::1".parse().unwrap();
    if TcpListener::bind((v6, 0)).is_err() {
        rep.inconclusive("no IPv6 loopback in this environment");
        return rep;
    }
    let exporters = a.budget(24, 2000);
    let runtime = tokio::runtime::Builder::new_multi_thread().worker_threads(2).enable_all().build().expect("tokio runtime");
    let mut ports = Ports::new(a, 1);
    for _ in 0..exporters {
        let nent = *r.pick(&[0usize, 1, 1, 1, 2, 3]);
        let mut list: Vec<String> = Vec::new();
        for _ in 0..nent {
            list.push(r.pick(ENTRIES6).to_string());
        }
        let port = ports.pick();
        let dst = SocketAddr::new(std::net::IpAddr::V6(v6), port);
        // half of the exporters listen on the unspecified IPv6 address: on a dual-stack host IPv4 clients reach that
        // listener too (the socket reports them as ::ffff:a.b.c.d)
        let dual = r.chance(1, 2);
        let listen = if dual { SocketAddr::new(std::net::IpAddr::V6(std::net::Ipv6Addr::UNSPECIFIED), port) } else { dst };
        let mut b = PrometheusBuilder::new().with_http_listener(listen);
        let mut build_err = None;
        for e in &list {
            match b.add_allowed_address(e) {
                Ok(nb) => b = nb,
                Err(err) => {
                    build_err = Some((e.clone(), format!("{}", err)));
                    b = PrometheusBuilder::new();
                    break;
                }
            }
        }
        let mut h = mix(list.len() as u64, 6);
        for e in &list {
            h = mix(h, crate::rt::fnv(e.as_bytes()));
        }
        if let Some((entry, err)) = build_err {
            rep.case(h, true);
            let plain = !entry.contains('/');
            rep.violation(if plain { "C18:plain-ip-allowlist-entry-rejected" } else { "C18:cidr-allowlist-entry-rejected" }, jo! {"what" => "the builder rejected an allowlist entry written in a documented form (an IP address or a subnet)", "entry" => entry, "error" => err});
            continue;
        }
        let mut built = runtime.block_on(async { b.build() });
        let (mut port, mut dst) = (port, dst);
        for _ in 0..8 {
            if built.is_ok() {
                break;
            }
            port = ports.pick();
            dst = SocketAddr::new(std::net::IpAddr::V6(v6), port);
            let listen = if dual { SocketAddr::new(std::net::IpAddr::V6(std::net::Ipv6Addr::UNSPECIFIED), port) } else { dst };
            let mut nb = PrometheusBuilder::new().with_http_listener(listen);
            for e in &list {
                nb = nb.add_allowed_address(e).expect("accepted before");
            }
            built = runtime.block_on(async { nb.build() });
        }
        let (rec, fut) = match built {
            Ok(x) => x,
            Err(e) => {
                rep.inconclusive(format!("exporter build failed: {}", e));
                continue;
            }
        };
        let task = runtime.spawn(fut);
        let mut ready = false;
        for _ in 0..400 {
            if TcpStream::connect(dst).is_ok() {
                ready = true;
                break;
            }
            std::thread::sleep(Duration::from_millis(5));
        }
        if !ready {
            rep.inconclusive("exporter never accepted a probe connection");
            task.abort();
            continue;
        }
        let counter = rec.register_counter(&Key::from_name("scraped_total"), &MD);
        let mut value = 0u64;
        let expect_allowed = list.is_empty() || list.iter().filter_map(|e| parse_entry6(e)).any(|(n, m)| u128::from(v6) & m == n);
        let desc = jo! {"listener" => if dual { "[::] (dual-stack)" } else { "[::1]" }, "allowlist" => J::A(list.iter().map(|e| J::s(e.clone())).collect())};
        for _ in 0..(3 + r.usize(6)) {
            let path = *r.pick(&["/", "/metrics", "/health", "/x?y=1"]);
            counter.increment(2);
            value += 2;
            if dual && r.chance(2, 3) {
                // an IPv4 client of the dual-stack listener: inside a listed network if an IPv4 entry contains its address
                // (or an IPv6 entry contains the mapped form the socket reports)
                let peer = Ipv4Addr::from(*r.pick(PEERS));
                let mapped = u128::from(peer.to_ipv6_mapped());
                let exp = list.is_empty() || allowed_ref_nonempty(&list, peer) || list.iter().filter_map(|e| parse_entry6(e)).any(|(n, m)| mapped & m == n);
                let res = http_get(peer, SocketAddrV4::new(Ipv4Addr::new(127, 0, 0, 1), port), path);
                if judge_ex(&mut rep, &list, exp, &peer.to_string(), ":ipv4-peer-of-dual-stack-listener", path, res, value, value, &desc) == Some(true) {
                    break;
                }
                continue;
            }
            let res = (|| -> Result<Resp, String> {
                let mut s = TcpStream::connect(dst).map_err(|e| format!("connect: {}", e))?;
                s.set_read_timeout(Some(Duration::from_secs(10))).ok();
                s.write_all(format!("GET {} HTTP/1.1\r\nHost: verif\r\nConnection: close\r\n\r\n", path).as_bytes()).map_err(|e| format!("write: {}", e))?;
                let mut buf = Vec::new();
                s.read_to_end(&mut buf).map_err(|e| format!("read: {}", e))?;
                parse_response(&buf)
            })();
            if judge_ex(&mut rep, &list, expect_allowed, "::1", ":ipv6-peer", path, res, value, value, &desc) == Some(true) {
                break;
            }
        }
        rep.case(h, !list.is_empty());
        if rep.want_sample() {
            rep.sample(jo! {"exporter" => desc, "ipv6_peer" => "::1", "ipv6_peer_expected_served" => expect_allowed});
        }
        task.abort();
        drop(rec);
    }
    rep
}

/// The process runs out of file descriptors while a client is waiting to be accepted: a shortage in the process, not a
/// fault of the listening socket. Once descriptors are available again, that client and later ones are served.
fn run_emfile(a: &Args) -> Report {
    rt::quiet_panics();
    let mut rep = Report::new("C18", &a.leg, a.seed);
    let runtime = tokio::runtime::Builder::new_multi_thread().worker_threads(2).enable_all().build().expect("tokio runtime");
    let mut ports = Ports::new(a, 2);
    let rounds = a.budget(2, 20);
    for round in 0..rounds {
        let mut built = None;
        let mut port = 0;
        for _ in 0..8 {
            port = ports.pick();
            let b = PrometheusBuilder::new().with_http_listener(SocketAddr::V4(SocketAddrV4::new(Ipv4Addr::new(127, 0, 0, 1), port)));
            if let Ok(x) = runtime.block_on(async { b.build() }) {
                built = Some(x);
                break;
            }
        }
        let (rec, fut) = match built {
            Some(x) => x,
            None => {
                rep.inconclusive("exporter build failed");
                continue;
            }
        };
        let dst = SocketAddrV4::new(Ipv4Addr::new(127, 0, 0, 1), port);
        let task = runtime.spawn(fut);
        let mut ready = false;
        for _ in 0..400 {
            if TcpStream::connect(dst).is_ok() {
                ready = true;
                break;
            }
            std::thread::sleep(Duration::from_millis(5));
        }
        if !ready {
            rep.inconclusive("exporter never accepted a probe connection");
            task.abort();
            continue;
        }
        rec.register_counter(&Key::from_name("scraped_total"), &MD).increment(1);
        // make sure the worker threads and the blocking pool exist before descriptors run out
        let warm = http_get(Ipv4Addr::new(127, 0, 0, 1), dst, "/metrics");
        if !matches!(&warm, Ok(r) if r.status == 200) {
            rep.inconclusive("warm-up scrape failed");
            task.abort();
            continue;
        }
        // lower the soft limit so that exhausting it is cheap, then use up every descriptor
        let mut lim = libc::rlimit { rlim_cur: 0, rlim_max: 0 };
        unsafe { libc::getrlimit(libc::RLIMIT_NOFILE, &mut lim) };
        let old = lim;
        lim.rlim_cur = lim.rlim_cur.min(512);
        unsafe { libc::setrlimit(libc::RLIMIT_NOFILE, &lim) };
        let mut hog: Vec<std::fs::File> = Vec::new();
        while let Ok(f) = std::fs::File::open("/dev/null") {
            hog.push(f);
            if hog.len() > 2000 {
                break;
            }
        }
        // exactly one descriptor is free: the waiting client's own socket takes it, the exporter's accept() cannot get one
        hog.pop();
        let queued = connect_from(Ipv4Addr::new(127, 0, 0, 1), dst);
        std::thread::sleep(Duration::from_millis(150 + 100 * (round % 2)));
        drop(hog);
        unsafe { libc::setrlimit(libc::RLIMIT_NOFILE, &old) };
        let mut served_queued = None;
        if let Ok(mut s) = queued {
            s.set_read_timeout(Some(Duration::from_secs(10))).ok();
            let r = s.write_all(b"GET /metrics HTTP/1.1\r\nHost: verif\r\nConnection: close\r\n\r\n").map_err(|e| format!("write: {}", e)).and_then(|_| {
                let mut buf = Vec::new();
                s.read_to_end(&mut buf).map_err(|e| format!("read: {}", e))?;
                parse_response(&buf)
            });
            served_queued = Some(r.map(|x| x.status));
        }
        let later = http_get(Ipv4Addr::new(127, 0, 0, 1), dst, "/metrics").map(|x| x.status);
        rep.case(mix(round, port as u64), served_queued.is_some());
        rep.count("rounds:descriptors-exhausted-with-a-client-waiting", served_queued.is_some() as u64);
        let ok_q = matches!(&served_queued, Some(Ok(200)) | None);
        let ok_l = matches!(&later, Ok(200));
        if !ok_q || !ok_l {
            rep.violation("C18:later-client-not-served:after-descriptor-shortage", jo! {"what" => "after the process had run out of file descriptors for a moment (with one client waiting to be accepted), the waiting client and/or a later client were not served", "waiting_client" => format!("{:?}", served_queued), "later_client" => format!("{:?}", later), "exporter_task_finished" => task.is_finished()});
        }
        task.abort();
        drop(rec);
    }
    rep
}

pub fn run(a: &Args) -> Option<Report> {
    if a.leg == "emfile" {
        return Some(run_emfile(a));
    }
    if a.leg == "v6" {
        return Some(run_v6(a));
    }
    if a.leg != "native" {
        return None;
    }
    rt::quiet_panics();
    let mut rep = Report::new("C18", &a.leg, a.seed);
    let mut r = Rng::new(a.shard_seed());
    let exporters = a.budget(24, 2000);
    let runtime = tokio::runtime::Builder::new_multi_thread().worker_threads(2).enable_all().build().expect("tokio runtime");
    let mut ports = Ports::new(a, 0);
    let mut exporter_index = 0usize;
    for _ in 0..exporters {
        // allowlist
        let nent = *r.pick(&[0usize, 1, 1, 2, 3, 5]);
        let mut list: Vec<String> = Vec::new();
        for _ in 0..nent {
            list.push(r.pick(ENTRIES).to_string());
        }
        if exporter_index == 0 {
            // an allowlist made of IPv6 networks only on an IPv4 listener: no IPv4 peer is inside any of them
            list = if r.chance(1, 2) { vec!["::1/128".to_string()] } else { vec!["fd00::/8".to_string(), "2001:db8::/32".to_string()] };
        }
        // the second exporter of every shard serves a large registry (allowlist as drawn, loopback peer judged by it)
        let big_body = exporter_index == 1;
        if big_body && r.chance(2, 3) {
            list.clear();
        }
        exporter_index += 1;
        let port = ports.pick();
        let dst = SocketAddrV4::new(Ipv4Addr::new(127, 0, 0, 1), port);
        let mut b = PrometheusBuilder::new().with_http_listener(SocketAddr::V4(SocketAddrV4::new(Ipv4Addr::new(0, 0, 0, 0), port)));
        let mut build_err = None;
        for e in &list {
            match b.add_allowed_address(e) {
                Ok(nb) => b = nb,
                Err(err) => {
                    build_err = Some((e.clone(), format!("{}", err)));
                    b = PrometheusBuilder::new();
                    break;
                }
            }
        }
        let mut h = mix(list.len() as u64, 0);
        for e in &list {
            h = mix(h, crate::rt::fnv(e.as_bytes()));
        }
        if let Some((entry, err)) = build_err {
            rep.case(h, true);
            let plain = !entry.contains('/');
            rep.violation(
                if plain { "C18:plain-ip-allowlist-entry-rejected" } else { "C18:cidr-allowlist-entry-rejected" },
                jo! {"what" => "the builder rejected an allowlist entry written in a documented form (an IP address or a subnet)", "entry" => entry, "error" => err},
            );
            continue;
        }
        let mut built = runtime.block_on(async { b.build() });
        let (mut port, mut dst) = (port, dst);
        for _ in 0..8 {
            if built.is_ok() {
                break;
            }
            // the port picked a moment ago was taken in the meantime (other shards use ephemeral ports too): pick again
            port = ports.pick();
            dst = SocketAddrV4::new(Ipv4Addr::new(127, 0, 0, 1), port);
            let mut nb = PrometheusBuilder::new().with_http_listener(SocketAddr::V4(SocketAddrV4::new(Ipv4Addr::new(0, 0, 0, 0), port)));
            for e in &list {
                nb = nb.add_allowed_address(e).expect("accepted before");
            }
            built = runtime.block_on(async { nb.build() });
        }
        let (rec, fut) = match built {
            Ok(x) => x,
            Err(e) => {
                rep.inconclusive(format!("exporter build failed: {}", e));
                continue;
            }
        };
        let task = runtime.spawn(fut);
        // readiness: a successful probe connection (not a sleep)
        let mut ready = false;
        for _ in 0..400 {
            if TcpStream::connect(dst).is_ok() {
                ready = true;
                break;
            }
            std::thread::sleep(Duration::from_millis(5));
        }
        if !ready {
            rep.inconclusive("exporter never accepted a probe connection");
            task.abort();
            continue;
        }
        // model: one counter whose value only grows; scrapes must see a value between before and after
        let counter = rec.register_counter(&Key::from_name("scraped_total"), &MD);
        let value = Arc::new(AtomicU64::new(0));
        let mut failed = false;
        if big_body {
            // a rendering of several hundred KiB, requested with Connection: close by a client that only starts reading
            // after a pause: the whole body must arrive (status 403 with an empty body for a peer outside the list)
            for i in 0..3000 {
                rec.register_counter(&Key::from_parts("filler_metric_with_a_rather_long_name_total", vec![metrics::Label::new("series", format!("{:05}-{}", i, "x".repeat(40)))]), &MD).increment(1);
            }
            let peer = Ipv4Addr::new(127, 0, 0, 1);
            let res = (|| -> Result<Resp, String> {
                let mut s = connect_from(peer, dst).map_err(|e| format!("connect: {}", e))?;
                s.set_read_timeout(Some(Duration::from_secs(10))).ok();
                s.write_all(b"GET /metrics HTTP/1.1\r\nHost: verif\r\nConnection: close\r\n\r\n").map_err(|e| format!("write: {}", e))?;
                std::thread::sleep(Duration::from_millis(300));
                let mut buf = Vec::new();
                s.read_to_end(&mut buf).map_err(|e| format!("read after {} bytes: {}", buf.len(), e))?;
                parse_response(&buf)
            })();
            let exp = allowed_ref(&list, peer);
            match res {
                Ok(resp) if exp && resp.status == 200 && resp.body.len() > 200_000 && resp.body.ends_with(b"\n") => {}
                Ok(resp) if !exp && resp.status == 403 && resp.body.is_empty() => {}
                other => {
                    rep.violation(if exp { "C18:large-body-not-delivered-whole" } else { "C18:outside-peer-not-forbidden" }, jo! {"what" => "a scrape of a large registry by a client that starts reading 300 ms after sending its request did not get the expected complete response", "expected" => if exp { "200 with the whole rendering" } else { "403 with an empty body" }, "got" => match &other { Ok(r) => format!("status {} with {} body bytes", r.status, r.body.len()), Err(e) => e.clone() }, "allowlist" => J::A(list.iter().map(|e| J::s(e.clone())).collect())});
                    failed = true;
                }
            }
        }
        let nconn = 20 + r.usize(40);
        let desc = jo! {"allowlist" => J::A(list.iter().map(|e| J::s(e.clone())).collect())};
        for ci in 0..nconn {
            if failed {
                break;
            }
            let peer = Ipv4Addr::from(*r.pick(PEERS));
            let expect_allowed = allowed_ref(&list, peer);
            let action = r.below(12);
            h = mix(h, action + (u32::from(peer) as u64) << 4);
            match action {
                0 => {
                    // garbage
                    if let Ok(mut s) = connect_from(peer, dst) {
                        let _ = s.write_all(b"\x00\xff garbage \r\n\r\n not http at all\r\n\r\n");
                        let mut t = [0u8; 256];
                        s.set_read_timeout(Some(Duration::from_millis(200))).ok();
                        let _ = s.read(&mut t);
                    }
                }
                1 => {
                    // half-open: partial request, left idle (kept alive until the end of this exporter's scenario)
                    if let Ok(mut s) = connect_from(peer, dst) {
                        let _ = s.write_all(b"GET /metr");
                        std::mem::forget(s);
                    }
                }
                4 => {
                    // silent: connect and send nothing at all, left open until the end of this exporter's scenario
                    if let Ok(s) = connect_from(peer, dst) {
                        std::mem::forget(s);
                    }
                }
                2 => {
                    // reset: SO_LINGER 0 close in the middle of a request
                    if let Ok(mut s) = connect_from(peer, dst) {
                        let _ = s.write_all(b"GET / HTTP/1.1\r\nHost: x\r\n");
                        unsafe {
                            use std::os::fd::AsRawFd;
                            let l = libc::linger { l_onoff: 1, l_linger: 0 };
                            libc::setsockopt(s.as_raw_fd(), libc::SOL_SOCKET, libc::SO_LINGER, &l as *const _ as *const libc::c_void, std::mem::size_of::<libc::linger>() as u32);
                        }
                        drop(s);
                    }
                }
                3 => {
                    // burst of concurrent scrapers while the counter changes
                    let before = value.load(Ordering::SeqCst);
                    let mut hs = Vec::new();
                    for k in 0..(2 + r.usize(14)) {
                        let p = Ipv4Addr::from(PEERS[(ci + k) % PEERS.len()]);
                        hs.push(std::thread::spawn(move || (p, http_get(p, dst, "/metrics"))));
                    }
                    for _ in 0..20 {
                        counter.increment(1);
                        value.fetch_add(1, Ordering::SeqCst);
                    }
                    for hnd in hs {
                        let (p, res) = hnd.join().unwrap();
                        let after = value.load(Ordering::SeqCst);
                        if let Some(v) = judge(&mut rep, &list, p, "/metrics", res, before, after, &desc) {
                            failed |= v;
                        }
                    }
                }
                _ => {
                    let path = *r.pick(&["/", "/metrics", "/health", "/anything/else?x=1", "/healthz", "/health/"]);
                    if r.chance(1, 2) {
                        counter.increment(3);
                        value.fetch_add(3, Ordering::SeqCst);
                    }
                    let before = value.load(Ordering::SeqCst);
                    let res = http_get(peer, dst, path);
                    let after = value.load(Ordering::SeqCst);
                    let _ = expect_allowed;
                    if let Some(v) = judge(&mut rep, &list, peer, path, res, before, after, &desc) {
                        failed |= v;
                    }
                }
            }
        }
        // after all the faults a well-formed client is still served
        let peer_ok = PEERS.iter().map(|p| Ipv4Addr::from(*p)).find(|p| allowed_ref(&list, *p));
        if let Some(p) = peer_ok {
            match http_get(p, dst, "/health") {
                Ok(resp) if resp.status == 200 && resp.body == b"OK" => {}
                other => {
                    rep.violation("C18:later-client-not-served", jo! {"what" => "after garbage / half-open / reset connections a well-formed allowed client was not served", "got" => format!("{:?}", other.map(|r| r.status)), "exporter" => desc.clone()});
                }
            }
        }
        rep.case(h, !list.is_empty());
        if rep.want_sample() {
            rep.sample(jo! {"exporter" => desc, "connections" => nconn, "port" => port as u64});
        }
        task.abort();
        drop(rec);
    }
    Some(rep)
}

/// Judge one exchange; returns Some(true) if a violation was recorded.
fn judge(rep: &mut Report, list: &[String], peer: Ipv4Addr, path: &str, res: Result<Resp, String>, before: u64, after: u64, desc: &J) -> Option<bool> {
    judge_ex(rep, list, allowed_ref(list, peer), &peer.to_string(), "", path, res, before, after, desc)
}

#[allow(clippy::too_many_arguments)]
fn judge_ex(rep: &mut Report, list: &[String], expect_allowed: bool, peer: &str, class: &str, path: &str, res: Result<Resp, String>, before: u64, after: u64, desc: &J) -> Option<bool> {
    rep.count(if expect_allowed { "exchanges:peer-inside-allowlist" } else { "exchanges:peer-outside-allowlist" }, 1);
    let resp = match res {
        Ok(r) => r,
        Err(e) => {
            rep.violation("C18:no-valid-http-response", jo! {"what" => "a well-formed request got no valid HTTP/1.1 response", "error" => e, "peer" => peer.to_string(), "path" => path, "exporter" => desc.clone()});
            return Some(true);
        }
    };
    if !expect_allowed {
        if resp.status != 403 || !resp.body.is_empty() {
            rep.violation(format!("C18:outside-peer-not-forbidden{}", class), jo! {"what" => "a peer in none of the listed networks did not get 403 with an empty body", "status" => resp.status as u64, "body_len" => resp.body.len(), "peer" => peer.to_string(), "exporter" => desc.clone()});
            return Some(true);
        }
        return Some(false);
    }
    if resp.status != 200 {
        let single_host_entry = list.iter().any(|e| !e.contains('/') || e.ends_with("/32"));
        rep.violation(if resp.status == 403 { format!("C18:inside-peer-forbidden{}", class) } else { "C18:unexpected-status".to_string() }, jo! {"what" => "a peer inside a listed network was not served 200", "status" => resp.status as u64, "peer" => peer.to_string(), "single_host_entries_present" => single_host_entry, "exporter" => desc.clone()});
        return Some(true);
    }
    if path == "/health" {
        if resp.body != b"OK" {
            rep.violation("C18:health-body", jo! {"what" => "/health did not return OK", "body" => String::from_utf8_lossy(&resp.body).to_string()});
            return Some(true);
        }
        return Some(false);
    }
    // a rendering at a time between request and response
    let text = String::from_utf8_lossy(&resp.body).to_string();
    let parsed = promparse::parse(&text).map_err(|e| e.msg).and_then(|l| promparse::families(&l));
    match parsed {
        Err(m) => {
            rep.violation("C18:body-not-a-rendering", jo! {"what" => "the 200 body is not well-formed exposition text", "error" => m, "path" => path});
            Some(true)
        }
        Ok(fams) => {
            let v = fams.iter().find(|f| f.name == "scraped_total").and_then(|f| f.samples.first().map(|s| s.2));
            let ok = match v {
                Some(x) => x >= before as f64 && x <= after as f64,
                None => before == 0,
            };
            if !ok {
                rep.violation("C18:stale-or-future-rendering", jo! {"what" => "the body is not a rendering of the metrics at a time between request and response", "value" => format!("{:?}", v), "bounds" => J::A(vec![J::U(before), J::U(after)]), "path" => path});
                return Some(true);
            }
            Some(false)
        }
    }
}
