//! One module per property; `dispatch` routes (property, leg) to a workload.
use crate::rt::{Args, Report};

pub mod c01;
pub mod c02;
pub mod c03;
pub mod c04;
pub mod c05;
pub mod c06;
#[cfg(feature = "net")]
pub mod c07;
pub mod c09;
pub mod c10;
#[cfg(feature = "net")]
pub mod c11;
#[cfg(feature = "net")]
pub mod c12;
pub mod c13;
pub mod c14;
#[cfg(feature = "net")]
pub mod c15;
pub mod c16;
#[cfg(feature = "net")]
pub mod c17;
#[cfg(feature = "net")]
pub mod c18;
pub mod c19;
pub mod c20;

pub fn dispatch(a: &Args) -> Option<Report> {
    match a.prop.as_str() {
        "C01" => c01::run(a),
        "C02" => c02::run(a),
        "C03" => c03::run(a),
        "C04" => c04::run(a),
        "C05" => c05::run(a),
        "C06" => c06::run(a),
        #[cfg(feature = "net")]
        "C07" | "C08" => c07::run(a),
        "C09" => c09::run(a),
        "C10" => c10::run(a),
        #[cfg(feature = "net")]
        "C11" => c11::run(a),
        #[cfg(feature = "net")]
        "C12" => c12::run(a),
        "C13" => c13::run(a),
        "C14" => c14::run(a),
        #[cfg(feature = "net")]
        "C15" => c15::run(a),
        "C16" => c16::run(a),
        #[cfg(feature = "net")]
        "C17" => c17::run(a),
        #[cfg(feature = "net")]
        "C18" => c18::run(a),
        "C19" => c19::run(a),
        "C20" => c20::run(a),
        _ => None,
    }
}
