//! C14 — shared strings and label slices own their memory correctly on every path.
use crate::rt::{self, fnv, mix, Args, Report, Rng, J};
use metrics::verif::Cow;
use metrics::{Key, KeyName, Label, SharedString};
use std::collections::hash_map::DefaultHasher;
use std::hash::{Hash, Hasher};
use std::sync::atomic::{AtomicIsize, Ordering};
use std::sync::Arc;

/// Slice element with a destructor: live-instance accounting.
#[derive(Debug)]
pub struct Elem {
    val: u32,
    live: Arc<AtomicIsize>,
}
impl Elem {
    fn new(val: u32, live: &Arc<AtomicIsize>) -> Elem {
        live.fetch_add(1, Ordering::SeqCst);
        Elem { val, live: live.clone() }
    }
}
thread_local! {
    /// fault injection: when armed with n > 0, the n-th element clone on this thread panics (and disarms)
    static CLONE_FUSE: std::cell::Cell<i64> = const { std::cell::Cell::new(0) };
}
struct CloneFault;
impl Clone for Elem {
    fn clone(&self) -> Self {
        let f = CLONE_FUSE.with(|c| c.get());
        if f > 0 {
            CLONE_FUSE.with(|c| c.set(f - 1));
            if f == 1 {
                std::panic::panic_any(CloneFault);
            }
        }
        self.live.fetch_add(1, Ordering::SeqCst);
        Elem { val: self.val, live: self.live.clone() }
    }
}
thread_local! {
    /// fault injection: when armed with n > 0, the n-th element destructor on this thread panics (after accounting)
    static DROP_FUSE: std::cell::Cell<i64> = const { std::cell::Cell::new(0) };
}
struct DropFault;
impl Drop for Elem {
    fn drop(&mut self) {
        self.live.fetch_sub(1, Ordering::SeqCst);
        let f = DROP_FUSE.with(|c| c.get());
        if f > 0 {
            DROP_FUSE.with(|c| c.set(f - 1));
            if f == 1 && !std::thread::panicking() {
                std::panic::panic_any(DropFault);
            }
        }
    }
}
impl PartialEq for Elem {
    fn eq(&self, o: &Self) -> bool {
        self.val == o.val
    }
}
impl Eq for Elem {}
impl PartialOrd for Elem {
    fn partial_cmp(&self, o: &Self) -> Option<std::cmp::Ordering> {
        Some(self.val.cmp(&o.val))
    }
}
impl Ord for Elem {
    fn cmp(&self, o: &Self) -> std::cmp::Ordering {
        self.val.cmp(&o.val)
    }
}
impl Hash for Elem {
    fn hash<H: Hasher>(&self, s: &mut H) {
        self.val.hash(s)
    }
}

#[derive(Clone, Copy, Debug, PartialEq)]
enum MK {
    Borrowed,
    Owned,
    Shared(usize),
}

const LENS: &[(usize, usize)] = &[(0, 0), (0, 5), (1, 1), (1, 4), (2, 2), (7, 7), (7, 16), (8, 8), (33, 33), (33, 64)];
pub const NOPS: u64 = 9;

fn h64<T: Hash + ?Sized>(t: &T) -> u64 {
    let mut h = DefaultHasher::new();
    t.hash(&mut h);
    h.finish()
}

struct Fail {
    sig: String,
    what: String,
}

/// Run one sequence over slice Cows. `ops` = (constructor shapes, op list). Returns (trace, failure).
fn run_slice_seq(r: &mut Rng, ctors: &[u64], ops: &[(u64, usize, usize)]) -> (Vec<String>, Option<Fail>) {
    let live = Arc::new(AtomicIsize::new(0));
    let mut trace = Vec::new();
    // static-like backing for borrowed values: lives for the whole sequence
    // one buffer for all borrowed values: slices of different lengths then start at the same address
    let maxlen = LENS.iter().map(|(l, _)| *l).max().unwrap();
    let backing: Vec<Elem> = (0..maxlen).map(|i| Elem::new(1000 + i as u32, &live)).collect();
    let backing_count: isize = backing.len() as isize;
    let mut arcs: Vec<Arc<[Elem]>> = Vec::new();
    let mut arc_expect: Vec<usize> = Vec::new(); // expected strong count
    let mut pool: Vec<(Cow<'_, [Elem]>, MK, Vec<u32>)> = Vec::new();
    let mut owned_elems: isize = 0; // elements the model says are alive outside backing/arcs
    let mut fail: Option<Fail> = None;
    for (ci, c) in ctors.iter().enumerate() {
        let (len, cap) = LENS[(*c / 3) as usize % LENS.len()];
        match c % 3 {
            0 => {
                let b = &backing[..len];
                let cow = if ci % 2 == 0 { Cow::from_borrowed(&b[..]) } else { Cow::const_slice(&b[..]) };
                pool.push((cow, MK::Borrowed, b.iter().map(|e| e.val).collect()));
                trace.push(format!("borrowed(len={})", len));
            }
            1 => {
                let mut v: Vec<Elem> = Vec::with_capacity(cap);
                for i in 0..len {
                    v.push(Elem::new(2000 + i as u32, &live));
                }
                owned_elems += len as isize;
                let content: Vec<u32> = v.iter().map(|e| e.val).collect();
                let cow = if ci % 2 == 0 { Cow::from_owned(v) } else { Cow::from(v) };
                pool.push((cow, MK::Owned, content));
                trace.push(format!("owned(len={},cap={})", len, cap));
            }
            _ => {
                let v: Vec<Elem> = (0..len).map(|i| Elem::new(3000 + i as u32, &live)).collect();
                let content: Vec<u32> = v.iter().map(|e| e.val).collect();
                let a: Arc<[Elem]> = Arc::from(v);
                owned_elems += len as isize;
                let cow = if ci % 2 == 0 { Cow::from_shared(a.clone()) } else { Cow::from(a.clone()) };
                arcs.push(a);
                arc_expect.push(2);
                pool.push((cow, MK::Shared(arcs.len() - 1), content));
                trace.push(format!("shared(len={})", len));
            }
        }
    }
    macro_rules! check_all {
        ($stage:expr) => {
            if fail.is_none() {
                for (i, a) in arcs.iter().enumerate() {
                    if Arc::strong_count(a) != arc_expect[i] {
                        fail = Some(Fail { sig: "C14:arc-strong-count".into(), what: format!("after {}: Arc strong count {} but model says {}", $stage, Arc::strong_count(a), arc_expect[i]) });
                    }
                }
                let l = live.load(Ordering::SeqCst);
                if fail.is_none() && l != backing_count + owned_elems {
                    fail = Some(Fail { sig: if l > backing_count + owned_elems { "C14:element-leaked-or-not-dropped".into() } else { "C14:element-dropped-twice".into() }, what: format!("after {}: {} live elements but model says {}", $stage, l, backing_count + owned_elems) });
                }
                for (cow, _, content) in pool.iter() {
                    let got: Vec<u32> = cow.iter().map(|e| e.val).collect();
                    if fail.is_none() && (got != *content || cow.len() != content.len()) {
                        fail = Some(Fail { sig: "C14:content-differs".into(), what: format!("after {}: content {:?} but model says {:?}", $stage, got, content) });
                    }
                }
            }
        };
    }
    check_all!("construction");
    for (op, i, j) in ops {
        if fail.is_some() || pool.is_empty() {
            break;
        }
        let i = *i % pool.len();
        let j = *j % pool.len();
        match op % NOPS {
            0 if j % 2 == 1 && i != j => {
                // clone_from: #j takes #i's value; what #j held before is released exactly once
                let (src, rest) = if i < j { let (a, b) = pool.split_at_mut(j); (&a[i], &mut b[0]) } else { let (a, b) = pool.split_at_mut(i); (&b[0], &mut a[j]) };
                match rest.1 {
                    MK::Owned => owned_elems -= rest.2.len() as isize,
                    MK::Shared(a) => arc_expect[a] -= 1,
                    MK::Borrowed => {}
                }
                rest.0.clone_from(&src.0);
                rest.1 = src.1;
                rest.2 = src.2.clone();
                match rest.1 {
                    MK::Owned => owned_elems += rest.2.len() as isize,
                    MK::Shared(a) => arc_expect[a] += 1,
                    MK::Borrowed => {}
                }
                trace.push(format!("#{}.clone_from(#{})", j, i));
            }
            0 => {
                // clone
                let c = pool[i].0.clone();
                let (mk, content) = (pool[i].1, pool[i].2.clone());
                match mk {
                    MK::Owned => owned_elems += content.len() as isize,
                    MK::Shared(a) => arc_expect[a] += 1,
                    MK::Borrowed => {}
                }
                pool.push((c, mk, content));
                trace.push(format!("clone #{}", i));
            }
            1 => {
                // into_owned
                let (cow, mk, content) = pool.swap_remove(i);
                if mk != MK::Owned && content.len() >= 2 && j % 3 == 0 {
                    // an element's Clone panics part-way through the copy: the value is consumed all the same, its share
                    // of the Arc is given back exactly once and the copies made so far are destroyed
                    CLONE_FUSE.with(|c| c.set(2 + (j % (content.len() - 1)) as i64));
                    let res = std::panic::catch_unwind(std::panic::AssertUnwindSafe(|| cow.into_owned()));
                    CLONE_FUSE.with(|c| c.set(0));
                    match res {
                        Err(_) => {
                            if let MK::Shared(a) = mk {
                                arc_expect[a] -= 1;
                            }
                            trace.push(format!("into_owned #{} ({:?}) with a panicking element clone", i, mk));
                        }
                        Ok(v) => {
                            // the fuse was not reached (fewer clones than expected): an ordinary into_owned
                            if let MK::Shared(a) = mk {
                                arc_expect[a] -= 1;
                            }
                            drop(v);
                            trace.push(format!("into_owned #{} ({:?})", i, mk));
                        }
                    }
                    check_all!(trace.last().unwrap());
                    continue;
                }
                let v: Vec<Elem> = cow.into_owned();
                let got: Vec<u32> = v.iter().map(|e| e.val).collect();
                match mk {
                    MK::Owned => {}
                    MK::Shared(a) => {
                        arc_expect[a] -= 1;
                        owned_elems += content.len() as isize;
                    }
                    MK::Borrowed => owned_elems += content.len() as isize,
                }
                if got != content {
                    fail = Some(Fail { sig: "C14:content-differs".into(), what: format!("into_owned returned {:?}, model {:?}", got, content) });
                }
                drop(v);
                owned_elems -= content.len() as isize;
                trace.push(format!("into_owned #{} ({:?})", i, mk));
            }
            2 => {
                // drop (now and then one element's destructor panics: the rest and the buffer are released all the same)
                let (cow, mk, content) = pool.swap_remove(i);
                if mk == MK::Owned && content.len() >= 2 && j % 3 == 0 {
                    DROP_FUSE.with(|c| c.set(1 + (j % content.len()) as i64));
                    let _ = std::panic::catch_unwind(std::panic::AssertUnwindSafe(move || drop(cow)));
                    DROP_FUSE.with(|c| c.set(0));
                    owned_elems -= content.len() as isize;
                    trace.push(format!("drop #{} with a panicking element destructor", i));
                    check_all!(trace.last().unwrap());
                    continue;
                }
                drop(cow);
                match mk {
                    MK::Owned => owned_elems -= content.len() as isize,
                    MK::Shared(a) => arc_expect[a] -= 1,
                    MK::Borrowed => {}
                }
                trace.push(format!("drop #{} ({:?})", i, mk));
            }
            3 => {
                // compare / hash against another
                let (a, b) = (&pool[i], &pool[j]);
                let eq = a.0 == b.0;
                let ord = a.0.cmp(&b.0);
                if eq != (a.2 == b.2) || ord != a.2.cmp(&b.2) || (eq && h64(&a.0) != h64(&b.0)) || h64(&a.0) != h64(&a.0[..]) {
                    fail = Some(Fail { sig: "C14:compare-or-hash-differs".into(), what: format!("eq/ord/hash of #{} vs #{} disagree with contents", i, j) });
                }
                trace.push(format!("compare #{} #{}", i, j));
            }
            4 => {
                // send to another thread and drop there
                let (cow, mk, content) = pool.swap_remove(i);
                // SAFETY of the test itself: borrowed data outlives the thread (joined below)
                let cow_static: Cow<'static, [Elem]> = unsafe { std::mem::transmute(cow) };
                let content2 = content.clone();
                let ok = std::thread::spawn(move || {
                    let got: Vec<u32> = cow_static.iter().map(|e| e.val).collect();
                    let c2 = cow_static.clone();
                    drop(cow_static);
                    let got2: Vec<u32> = c2.iter().map(|e| e.val).collect();
                    got == content2 && got2 == content2
                })
                .join()
                .unwrap_or(false);
                match mk {
                    MK::Owned => owned_elems -= content.len() as isize,
                    MK::Shared(a) => arc_expect[a] -= 1,
                    MK::Borrowed => {}
                }
                if !ok {
                    fail = Some(Fail { sig: "C14:content-differs".into(), what: "content read on another thread differs".into() });
                }
                trace.push(format!("send+clone+drop on other thread #{}", i));
            }
            5 => {
                // deref / as_ref / borrow round trip + Debug
                let a = &pool[i];
                let s: &[Elem] = a.0.as_ref();
                let _ = format!("{:?}", a.0).len();
                if s.len() != a.2.len() {
                    fail = Some(Fail { sig: "C14:content-differs".into(), what: "as_ref length differs".into() });
                }
                trace.push(format!("as_ref/debug #{}", i));
            }
            6 => {
                // clone then into_owned of the clone (original stays)
                let c = pool[i].0.clone();
                let mk = pool[i].1;
                let v = c.into_owned();
                let got: Vec<u32> = v.iter().map(|e| e.val).collect();
                if got != pool[i].2 {
                    fail = Some(Fail { sig: "C14:content-differs".into(), what: "clone().into_owned() content differs".into() });
                }
                drop(v);
                let _ = mk;
                trace.push(format!("clone.into_owned #{}", i));
            }
            7 => {
                // through Key: labels slice Cow inside a Key (only for real Labels: use a fresh label vec)
                let n = pool[i].2.len().min(9);
                let labels: Vec<Label> = (0..n).map(|k| Label::new(format!("k{}", k), format!("v{}", pool[i].2[k]))).collect();
                let key = Key::from_parts("n", labels.clone());
                let k2 = key.clone();
                let (name, ls) = key.into_parts();
                if ls != labels || name.as_str() != "n" || k2.labels().count() != n {
                    fail = Some(Fail { sig: "C14:content-differs".into(), what: "Key::into_parts labels differ".into() });
                }
                trace.push(format!("key round trip ({} labels)", n));
            }
            _ => {
                // default / empty
                let d: Cow<'_, [Elem]> = Cow::from_owned(Vec::new());
                if !d.is_empty() {
                    fail = Some(Fail { sig: "C14:content-differs".into(), what: "empty owned not empty".into() });
                }
                pool.push((d, MK::Owned, vec![]));
                trace.push("empty owned".into());
            }
        }
        check_all!(trace.last().unwrap());
    }
    // drop everything (random order), then account. In half of the sequences the harness lets go of its own Arcs first,
    // so that the Cow values are the last holders: their drops must then free the shared blocks and every element.
    if fail.is_none() && r.chance(1, 2) {
        let weaks: Vec<std::sync::Weak<[Elem]>> = arcs.iter().map(Arc::downgrade).collect();
        let lens: Vec<isize> = arcs.iter().map(|a| a.len() as isize).collect();
        arcs.clear();
        arc_expect.clear();
        let mut refs: Vec<usize> = vec![0; weaks.len()];
        for (_, mk, _) in pool.iter() {
            if let MK::Shared(a) = mk {
                refs[*a] += 1;
            }
        }
        // Arcs nobody references any more died with the harness's handle
        for (a, n) in refs.iter().enumerate() {
            if *n == 0 {
                owned_elems -= lens[a];
            }
        }
        while !pool.is_empty() && fail.is_none() {
            let i = r.usize(pool.len());
            let (cow, mk, content) = pool.swap_remove(i);
            drop(cow);
            match mk {
                MK::Owned => owned_elems -= content.len() as isize,
                MK::Shared(a) => {
                    refs[a] -= 1;
                    if refs[a] == 0 {
                        owned_elems -= lens[a];
                        if weaks[a].upgrade().is_some() {
                            fail = Some(Fail { sig: "C14:arc-reference-not-released".into(), what: format!("the last Cow sharing Arc #{} (len {}) was dropped but the Arc is still alive", a, lens[a]) });
                        }
                    }
                }
                MK::Borrowed => {}
            }
            check_all!("a final drop with the Cow values as last holders");
        }
        trace.push("harness released its Arcs first; Cow values dropped as last holders".into());
    }
    if fail.is_none() {
        while !pool.is_empty() {
            let i = r.usize(pool.len());
            let (cow, mk, content) = pool.swap_remove(i);
            drop(cow);
            match mk {
                MK::Owned => owned_elems -= content.len() as isize,
                MK::Shared(a) => arc_expect[a] -= 1,
                MK::Borrowed => {}
            }
        }
        check_all!("final drops");
        if fail.is_none() {
            for (i, a) in arcs.iter().enumerate() {
                if Arc::strong_count(a) != 1 {
                    fail = Some(Fail { sig: "C14:arc-strong-count".into(), what: format!("at the end Arc #{} strong count {} != 1", i, Arc::strong_count(a)) });
                }
            }
        }
    } else {
        // do not run destructors of possibly corrupted values
        for p in pool.drain(..) {
            std::mem::forget(p);
        }
        for a in arcs.drain(..) {
            std::mem::forget(a);
        }
    }
    (trace, fail)
}

/// Same idea over Cow<str> (SharedString), including the public SharedString / KeyName / Label paths.
fn run_str_seq(r: &mut Rng, ctors: &[u64], ops: &[(u64, usize, usize)]) -> (Vec<String>, Option<Fail>) {
    let mut trace = Vec::new();
    let backing: Vec<String> = LENS.iter().map(|(l, _)| "é".repeat(*l / 2) + &"x".repeat(*l % 2 + if *l > 0 { 0 } else { 0 })).collect();
    let shared_buf: String = (0..64).map(|i| (b'k' + (i % 7) as u8) as char).collect();
    let mut arcs: Vec<Arc<str>> = Vec::new();
    let mut arc_expect: Vec<usize> = Vec::new();
    let mut pool: Vec<(Cow<'_, str>, MK, String)> = Vec::new();
    let mut fail: Option<Fail> = None;
    for (ci, c) in ctors.iter().enumerate() {
        let idx = (*c / 3) as usize % LENS.len();
        let (len, cap) = LENS[idx];
        match c % 3 {
            0 => {
                // either its own buffer (non-ASCII) or a prefix of one shared buffer (same start address, other length)
                let b: &str = if ci == 0 { backing[idx].as_str() } else { &shared_buf[..len] };
                let cow = match ci % 3 {
                    0 => Cow::from_borrowed(b),
                    1 => Cow::const_str(b),
                    _ => Cow::from(std::borrow::Cow::Borrowed(b)),
                };
                pool.push((cow, MK::Borrowed, b.to_string()));
                trace.push(format!("borrowed({}B{})", b.len(), if ci == 0 { "" } else { ", prefix of the shared buffer" }));
            }
            1 => {
                let mut s = String::with_capacity(cap);
                for i in 0..len {
                    s.push((b'a' + (i % 26) as u8) as char);
                }
                let content = s.clone();
                let cow = match ci % 3 {
                    0 => Cow::from_owned(s),
                    1 => Cow::from(s),
                    _ => Cow::from(std::borrow::Cow::Owned(s)),
                };
                pool.push((cow, MK::Owned, content));
                trace.push(format!("owned(len={},cap={})", len, cap));
            }
            _ => {
                let s: String = (0..len).map(|i| (b'A' + (i % 26) as u8) as char).collect();
                let a: Arc<str> = Arc::from(s.as_str());
                let cow = if ci % 2 == 0 { Cow::from_shared(a.clone()) } else { Cow::from(a.clone()) };
                arcs.push(a);
                arc_expect.push(2);
                pool.push((cow, MK::Shared(arcs.len() - 1), s));
                trace.push(format!("shared({}B)", len));
            }
        }
    }
    macro_rules! check_all {
        ($stage:expr) => {
            if fail.is_none() {
                for (i, a) in arcs.iter().enumerate() {
                    if Arc::strong_count(a) != arc_expect[i] {
                        fail = Some(Fail { sig: "C14:arc-strong-count".into(), what: format!("after {}: Arc<str> strong count {} but model says {}", $stage, Arc::strong_count(a), arc_expect[i]) });
                    }
                }
                for (cow, _, content) in pool.iter() {
                    if fail.is_none() && (&**cow != content.as_str() || cow.len() != content.len()) {
                        fail = Some(Fail { sig: "C14:content-differs".into(), what: format!("after {}: content {:?} but model says {:?}", $stage, &**cow, content) });
                    }
                }
            }
        };
    }
    check_all!("construction");
    for (op, i, j) in ops {
        if fail.is_some() || pool.is_empty() {
            break;
        }
        let i = *i % pool.len();
        let j = *j % pool.len();
        match op % NOPS {
            0 if j % 2 == 1 && i != j => {
                // clone_from: #j takes #i's value; what #j held before is released exactly once
                let (src, rest) = if i < j { let (a, b) = pool.split_at_mut(j); (&a[i], &mut b[0]) } else { let (a, b) = pool.split_at_mut(i); (&b[0], &mut a[j]) };
                if let MK::Shared(a) = rest.1 {
                    arc_expect[a] -= 1;
                }
                rest.0.clone_from(&src.0);
                rest.1 = src.1;
                rest.2 = src.2.clone();
                if let MK::Shared(a) = rest.1 {
                    arc_expect[a] += 1;
                }
                trace.push(format!("#{}.clone_from(#{})", j, i));
            }
            0 => {
                let c = pool[i].0.clone();
                let (mk, content) = (pool[i].1, pool[i].2.clone());
                if let MK::Shared(a) = mk {
                    arc_expect[a] += 1;
                }
                pool.push((c, mk, content));
                trace.push(format!("clone #{}", i));
            }
            1 => {
                let (cow, mk, content) = pool.swap_remove(i);
                let s: String = cow.into_owned();
                if let MK::Shared(a) = mk {
                    arc_expect[a] -= 1;
                }
                if s != content {
                    fail = Some(Fail { sig: "C14:content-differs".into(), what: format!("into_owned returned {:?}, model {:?}", s, content) });
                }
                trace.push(format!("into_owned #{} ({:?})", i, mk));
            }
            2 => {
                let (cow, mk, _) = pool.swap_remove(i);
                drop(cow);
                if let MK::Shared(a) = mk {
                    arc_expect[a] -= 1;
                }
                trace.push(format!("drop #{} ({:?})", i, mk));
            }
            3 => {
                let (a, b) = (&pool[i], &pool[j]);
                let eq = a.0 == b.0;
                if eq != (a.2 == b.2) || a.0.cmp(&b.0) != a.2.cmp(&b.2) || a.0.partial_cmp(&b.0) != a.2.partial_cmp(&b.2) || h64(&a.0) != h64(a.2.as_str()) || format!("{}", a.0) != a.2 {
                    fail = Some(Fail { sig: "C14:compare-or-hash-differs".into(), what: format!("eq/ord/hash/display of #{} vs #{} disagree with contents", i, j) });
                }
                trace.push(format!("compare #{} #{}", i, j));
            }
            4 => {
                let (cow, mk, content) = pool.swap_remove(i);
                let cow_static: Cow<'static, str> = unsafe { std::mem::transmute(cow) };
                let c2 = content.clone();
                let ok = std::thread::spawn(move || {
                    let a = &*cow_static == c2.as_str();
                    let cl = cow_static.clone();
                    drop(cow_static);
                    a && &*cl == c2.as_str()
                })
                .join()
                .unwrap_or(false);
                if let MK::Shared(a) = mk {
                    arc_expect[a] -= 1;
                }
                if !ok {
                    fail = Some(Fail { sig: "C14:content-differs".into(), what: "content read on another thread differs".into() });
                }
                trace.push(format!("send+clone+drop on other thread #{}", i));
            }
            5 => {
                // through the public types: SharedString -> KeyName -> Key -> into_parts
                let c = pool[i].0.clone();
                let mk = pool[i].1;
                if let MK::Shared(a) = mk {
                    arc_expect[a] += 1;
                }
                let ss: SharedString = unsafe { std::mem::transmute::<Cow<'_, str>, Cow<'static, str>>(c) };
                let kn = KeyName::from(ss);
                let kn2 = kn.clone();
                if let MK::Shared(a) = mk {
                    arc_expect[a] += 1;
                }
                let key = Key::from_name(kn);
                let ok = key.name() == pool[i].2 && kn2.as_str() == pool[i].2;
                let (n, _) = key.into_parts();
                drop(n);
                drop(kn2);
                if let MK::Shared(a) = mk {
                    arc_expect[a] -= 2;
                }
                if !ok {
                    fail = Some(Fail { sig: "C14:content-differs".into(), what: "KeyName/Key name differs".into() });
                }
                trace.push(format!("keyname/key round trip #{}", i));
            }
            6 => {
                // Label with shared/borrowed strings, clone, into_parts, into_owned
                let c1 = pool[i].0.clone();
                let c2 = pool[j].0.clone();
                let (m1, m2) = (pool[i].1, pool[j].1);
                let l = Label::new(
                    unsafe { std::mem::transmute::<Cow<'_, str>, SharedString>(c1) },
                    unsafe { std::mem::transmute::<Cow<'_, str>, SharedString>(c2) },
                );
                let l2 = l.clone();
                let ok = l.key() == pool[i].2 && l.value() == pool[j].2 && l == l2;
                let (k, v) = l.into_parts();
                let ks = k.into_owned();
                let ok2 = ks == pool[i].2 && &*v == pool[j].2.as_str();
                drop(v);
                drop(l2);
                let _ = (m1, m2);
                if !(ok && ok2) {
                    fail = Some(Fail { sig: "C14:content-differs".into(), what: "Label key/value differ".into() });
                }
                trace.push(format!("label round trip #{} #{}", i, j));
            }
            7 => {
                let c = pool[i].0.clone();
                let s = c.into_owned();
                if s != pool[i].2 {
                    fail = Some(Fail { sig: "C14:content-differs".into(), what: "clone().into_owned() differs".into() });
                }
                trace.push(format!("clone.into_owned #{}", i));
            }
            _ => {
                let d: Cow<'_, str> = Cow::default();
                if !d.is_empty() {
                    fail = Some(Fail { sig: "C14:content-differs".into(), what: "default not empty".into() });
                }
                pool.push((d, MK::Borrowed, String::new()));
                trace.push("default".into());
            }
        }
        check_all!(trace.last().unwrap());
    }
    if fail.is_none() && r.chance(1, 2) {
        // the harness lets go of its own Arcs first: the Cow values are the last holders
        let weaks: Vec<std::sync::Weak<str>> = arcs.iter().map(Arc::downgrade).collect();
        arcs.clear();
        arc_expect.clear();
        let mut refs: Vec<usize> = vec![0; weaks.len()];
        for (_, mk, _) in pool.iter() {
            if let MK::Shared(a) = mk {
                refs[*a] += 1;
            }
        }
        while !pool.is_empty() && fail.is_none() {
            let i = r.usize(pool.len());
            let (cow, mk, _) = pool.swap_remove(i);
            drop(cow);
            if let MK::Shared(a) = mk {
                refs[a] -= 1;
                if refs[a] == 0 && weaks[a].upgrade().is_some() {
                    fail = Some(Fail { sig: "C14:arc-reference-not-released".into(), what: format!("the last Cow sharing Arc<str> #{} was dropped but the Arc is still alive", a) });
                }
            }
        }
        for (a, w) in weaks.iter().enumerate() {
            if fail.is_none() && w.upgrade().is_some() {
                fail = Some(Fail { sig: "C14:arc-reference-not-released".into(), what: format!("every value was dropped but Arc<str> #{} is still alive", a) });
            }
        }
        trace.push("harness released its Arcs first; Cow values dropped as last holders".into());
    }
    if fail.is_none() {
        while !pool.is_empty() {
            let i = r.usize(pool.len());
            let (cow, mk, _) = pool.swap_remove(i);
            drop(cow);
            if let MK::Shared(a) = mk {
                arc_expect[a] -= 1;
            }
        }
        check_all!("final drops");
    } else {
        for p in pool.drain(..) {
            std::mem::forget(p);
        }
        for a in arcs.drain(..) {
            std::mem::forget(a);
        }
    }
    (trace, fail)
}

/// Cow<[T]> may cross threads only if T may: observed at run time without failing to compile either way (an inherent
/// method that exists only for Send types shadows a trait method of the same name).
struct SendProbe<T: ?Sized>(std::marker::PhantomData<T>);
trait NotSendFallback {
    fn is_send(&self) -> bool {
        false
    }
}
impl<T: ?Sized> NotSendFallback for SendProbe<T> {}
impl<T: ?Sized + Send> SendProbe<T> {
    fn is_send(&self) -> bool {
        true
    }
}
/// Sync but not Send (like a lock guard): must keep a Cow of it on its thread.
#[derive(Clone)]
struct ThreadBound(std::marker::PhantomData<std::sync::MutexGuard<'static, ()>>);
/// Send but not Sync.
#[derive(Clone)]
struct Unshareable(std::marker::PhantomData<std::cell::Cell<u8>>);

fn auto_trait_probes(rep: &mut Report) {
    let a = SendProbe::<Cow<'static, [ThreadBound]>>(std::marker::PhantomData).is_send();
    let b = SendProbe::<Cow<'static, [Unshareable]>>(std::marker::PhantomData).is_send();
    let c = SendProbe::<Cow<'static, str>>(std::marker::PhantomData).is_send();
    rep.case(mix(0xC14, (a as u64) | (b as u64) << 1 | (c as u64) << 2), true);
    if a || !b || !c {
        rep.violation("C14:send-bound-wrong", jo! {"what" => "Cow<[T]> must be Send exactly when T is Send (its owned buffer or Arc reference is dropped wherever the Cow goes)", "cow_of_sync_but_not_send_elements_is_send" => a, "cow_of_send_elements_is_send" => b, "cow_str_is_send" => c});
    }
}

pub fn run(a: &Args) -> Option<Report> {
    match a.leg.as_str() {
        "zst" | "miri-zst" => return Some(run_zst(a)),
        "sweep" | "random" | "asan" | "miri" | "miri-sweep" => {}
        _ => return None,
    }
    rt::quiet_panics();
    let mut rep = Report::new("C14", &a.leg, a.seed);
    auto_trait_probes(&mut rep);
    let mut r = Rng::new(a.shard_seed());
    let miri = cfg!(miri);
    let run_one = |rep: &mut Report, r: &mut Rng, is_str: bool, ctors: Vec<u64>, ops: Vec<(u64, usize, usize)>| {
        let res = rt::catch(|| if is_str { run_str_seq(r, &ctors, &ops) } else { run_slice_seq(r, &ctors, &ops) });
        let mut h = is_str as u64;
        for c in &ctors {
            h = mix(h, *c);
        }
        for (o, i, j) in &ops {
            h = mix(h, o % NOPS + (*i as u64 % 8) * 16 + (*j as u64 % 8) * 256);
        }
        rep.case(h, !ops.is_empty());
        match res {
            Ok((trace, fail)) => {
                if let Some(f) = fail {
                    rep.violation(f.sig, jo! {"what" => f.what, "type" => if is_str {"Cow<str>"} else {"Cow<[Elem]>"}, "sequence" => J::A(trace.iter().map(|t| J::s(t.clone())).collect())});
                } else if rep.want_sample() && trace.len() > 4 {
                    rep.sample(jo! {"type" => if is_str {"Cow<str>"} else {"Cow<[Elem]>"}, "sequence" => J::A(trace.iter().map(|t| J::s(t.clone())).collect())});
                }
            }
            Err(m) => rep.violation("C14:panic", jo! {"what" => "a safe Cow operation sequence panicked", "panic" => m}),
        }
    };
    if a.leg == "sweep" || a.leg == "miri-sweep" || a.leg == "asan" {
        // complete small-scope sweep: every sequence of <= 3 ops (9-op alphabet, operands folded onto the first
        // two pool slots) for each of the 30 constructor shapes, both element types; sharded
        let mut n = 0u64;
        let maxlen = if miri { 2 } else { 3 };
        for is_str in [false, true] {
            for ctor in 0..(3 * LENS.len() as u64) {
                for len in 0..=maxlen {
                    let total = NOPS.pow(len as u32);
                    for code in 0..total {
                        n += 1;
                        if n % a.shards != a.shard {
                            continue;
                        }
                        if miri && (ctor / 3) % 3 != 0 && len == 2 {
                            continue; // keep Miri to a third of the shapes at length 2
                        }
                        let mut ops = Vec::new();
                        let mut c = code;
                        for k in 0..len {
                            ops.push((c % NOPS, k, k + 1));
                            c /= NOPS;
                        }
                        // a second value of another kind is always present so binary ops have a partner
                        let ctors = vec![ctor, (ctor + 4) % (3 * LENS.len() as u64)];
                        run_one(&mut rep, &mut r, is_str, ctors, ops);
                    }
                }
            }
        }
        rep.extras.put("exhaustive_small_scope", J::B(!miri));
    }
    if a.leg != "sweep" && a.leg != "miri-sweep" {
        let n = if miri { 6 } else { a.budget(4000, 400_000) };
        for _ in 0..n {
            let is_str = r.chance(1, 2);
            let nc = 1 + r.usize(4);
            let ctors: Vec<u64> = (0..nc).map(|_| r.below(3 * LENS.len() as u64)).collect();
            let no = if miri { 6 } else { 1 + r.usize(25) };
            let ops: Vec<(u64, usize, usize)> = (0..no).map(|_| (r.below(NOPS), r.usize(8), r.usize(8))).collect();
            run_one(&mut rep, &mut r, is_str, ctors, ops);
        }
    }
    let _ = fnv;
    Some(rep)
}

/// Zero-sized element types: `Vec<Zst>` reports a capacity of usize::MAX, which the representation reserves for the
/// shared kind. Every safe sequence must either be refused cleanly (a panic) or behave; a wild access kills the
/// process (the driver reports the signal) or is reported by Miri/ASan.
#[derive(Clone, Debug, PartialEq, Eq, PartialOrd, Ord, Hash)]
struct Zst;

fn run_zst(a: &Args) -> Report {
    let mut rep = Report::new("C14", &a.leg, a.seed);
    rt::quiet_panics();
    let mut r = Rng::new(a.shard_seed());
    for n in [0usize, 1, 3, 64] {
        for ops in 0..8u64 {
            let res = rt::catch(|| {
                let v: Vec<Zst> = (0..n).map(|_| Zst).collect();
                let c: Cow<'_, [Zst]> = Cow::from_owned(v);
                let len = c.len();
                let d = if ops & 1 != 0 { Some(c.clone()) } else { None };
                if ops & 2 != 0 {
                    let back = c.into_owned();
                    assert_eq!(back.len(), len);
                } else {
                    drop(c);
                }
                if let Some(d) = d {
                    if ops & 4 != 0 {
                        let h = std::thread::spawn(move || d.len());
                        assert_eq!(h.join().unwrap(), len);
                    } else {
                        assert_eq!(d.len(), len);
                    }
                }
                len
            });
            rep.case(mix(n as u64, ops), true);
            match res {
                Ok(len) => {
                    if len != n {
                        rep.violation("C14:content-differs", jo! {"what" => "zero-sized elements: length read back differs", "n" => n, "len" => len});
                    }
                }
                Err(m) => {
                    // a clean refusal is acceptable only as the documented capacity panic
                    if !m.contains("Invalid capacity") {
                        rep.violation("C14:panic", jo! {"what" => "zero-sized elements: an operation panicked with something other than the documented refusal", "panic" => m, "n" => n, "ops" => ops});
                    }
                }
            }
        }
    }
    // borrowed and shared slices of zero-sized elements are ordinary values
    let backing = vec![Zst; 5];
    let b = Cow::from_borrowed(&backing[..]);
    let b2 = b.clone();
    let arc: Arc<[Zst]> = Arc::from(vec![Zst; 3]);
    let sres = rt::catch(|| {
        let s1: Cow<'_, [Zst]> = Cow::from_shared(arc.clone());
        let s2 = s1.clone();
        let l = s1.len() + s2.len();
        drop(s1);
        let v = s2.into_owned();
        l + v.len()
    });
    if b.len() != 5 || b2.len() != 5 || !matches!(sres, Ok(9)) || Arc::strong_count(&arc) != 1 {
        rep.violation("C14:content-differs", jo! {"what" => "borrowed/shared slices of zero-sized elements misbehave", "shared_result" => format!("{:?}", sres), "strong_count" => Arc::strong_count(&arc)});
    }
    rep.sample(jo! {"zero_sized_elements" => true, "owned_lengths" => "0,1,3,64", "op_masks" => 8});
    let _ = r.next_u64();
    rep
}
