//! C07 — Prometheus output reports exactly what was recorded, each sample once.
//! C08 — Prometheus output is well-formed exposition text for any input strings.
use crate::promparse::{self, Family, Line};
use crate::rt::{self, fnv, mix, Args, Report, Rng, J};
use metrics::{Key, KeyName, Label, Level, Metadata, Recorder, SharedString, Unit};
use metrics_exporter_prometheus::{Matcher, PrometheusBuilder, PrometheusHandle, PrometheusRecorder};
use std::collections::{BTreeMap, BTreeSet};
use std::sync::atomic::{AtomicU64, Ordering};
use std::sync::Arc;

static MD: Metadata<'static> = Metadata::new("c07", Level::INFO, None);

pub fn san_name(s: &str) -> String {
    s.chars()
        .enumerate()
        .map(|(i, c)| if (c.is_ascii_alphabetic() || c == '_' || c == ':') || (i != 0 && c.is_ascii_digit()) { c } else { '_' })
        .collect()
}
pub fn san_label(s: &str) -> String {
    s.chars()
        .enumerate()
        .map(|(i, c)| if (c.is_ascii_alphabetic() || c == '_') || (i != 0 && c.is_ascii_digit()) { c } else { '_' })
        .collect()
}

pub const UNITS: &[Unit] = &[
    Unit::Count,
    Unit::Percent,
    Unit::Seconds,
    Unit::Milliseconds,
    Unit::Microseconds,
    Unit::Nanoseconds,
    Unit::Tebibytes,
    Unit::Gibibytes,
    Unit::Mebibytes,
    Unit::Kibibytes,
    Unit::Bytes,
    Unit::TerabitsPerSecond,
    Unit::GigabitsPerSecond,
    Unit::MegabitsPerSecond,
    Unit::KilobitsPerSecond,
    Unit::BitsPerSecond,
    Unit::CountPerSecond,
];

pub fn unit_suffix(u: Unit) -> Option<&'static str> {
    match u {
        Unit::Count => None,
        Unit::Percent => Some("ratio"),
        o => Some(o.as_str()),
    }
}

#[derive(Clone, Debug)]
struct Cfg {
    global_buckets: Option<Vec<f64>>,
    overrides: Vec<(u8, String, Vec<f64>)>,
    global_labels: Vec<(String, String)>,
    unit_suffix: bool,
    quantiles: Vec<f64>,
}

#[derive(Clone, Debug)]
struct Metric {
    kind: u8,
    name: String,
    labels: Vec<(String, String)>,
}

struct Exp {
    rec: PrometheusRecorder,
    handle: PrometheusHandle,
}

fn build(cfg: &Cfg) -> Exp {
    let mut b = PrometheusBuilder::new().set_enable_unit_suffix(cfg.unit_suffix);
    if let Some(g) = &cfg.global_buckets {
        b = b.set_buckets(g).unwrap();
    }
    for (cls, pat, bk) in &cfg.overrides {
        let m = match cls {
            0 => Matcher::Full(pat.clone()),
            1 => Matcher::Prefix(pat.clone()),
            _ => Matcher::Suffix(pat.clone()),
        };
        b = b.set_buckets_for_metric(m, bk).unwrap();
    }
    for (k, v) in &cfg.global_labels {
        b = b.add_global_label(k.clone(), v.clone());
    }
    b = b.set_quantiles(&cfg.quantiles).unwrap();
    let rec = b.build_recorder();
    let handle = rec.handle();
    Exp { rec, handle }
}

/// merged labels with IndexMap semantics: global first, key's own replace in place or append
fn merged_labels(cfg: &Cfg, m: &Metric) -> Vec<(String, String)> {
    let mut v: Vec<(String, String)> = Vec::new();
    for (k, val) in &cfg.global_labels {
        if let Some(e) = v.iter_mut().find(|(kk, _)| kk == k) {
            e.1 = val.clone();
        } else {
            v.push((k.clone(), val.clone()));
        }
    }
    for (k, val) in &m.labels {
        if let Some(e) = v.iter_mut().find(|(kk, _)| kk == k) {
            e.1 = val.clone();
        } else {
            v.push((k.clone(), val.clone()));
        }
    }
    v
}

/// reference: which buckets apply to a (sanitised) histogram name
fn buckets_for(cfg: &Cfg, sname: &str) -> Option<Vec<f64>> {
    let mut best: Option<(u8, Vec<f64>)> = None;
    for (cls, pat, bk) in &cfg.overrides {
        let sp = san_name(pat);
        let m = match cls {
            0 => sname == sp,
            1 => sname.starts_with(&sp),
            _ => sname.ends_with(&sp),
        };
        if m {
            match &best {
                Some((bc, _)) if *bc <= *cls => {}
                _ => best = Some((*cls, bk.clone())),
            }
        }
    }
    best.map(|b| b.1).or_else(|| cfg.global_buckets.clone())
}

#[derive(Default, Clone)]
struct MState {
    counter: u64,
    gauge: f64,
    samples: Vec<f64>,
    touched: bool,
}

fn key_of(m: &Metric) -> Key {
    Key::from_parts(m.name.clone(), m.labels.iter().map(|(k, v)| Label::new(k.clone(), v.clone())).collect::<Vec<_>>())
}

/// Compare a parsed rendering with the model. Returns (sig, what) on the first mismatch.
fn compare(cfg: &Cfg, metrics_: &[Metric], st: &[MState], descs: &BTreeMap<String, (String, Option<Unit>)>, fams: &[Family], check_values: bool, check_help: bool) -> Option<(String, String)> {
    let mut expected_fams: BTreeSet<String> = BTreeSet::new();
    for (i, m) in metrics_.iter().enumerate() {
        if !st[i].touched {
            continue;
        }
        let sname = san_name(&m.name);
        let unit = descs.get(&sname).and_then(|d| d.1).and_then(|u| if cfg.unit_suffix { unit_suffix(u) } else { None });
        // family name: the plain sanitised name, or (unit suffix enabled) the name carrying the unit
        let cands: Vec<String> = match unit {
            Some(u) => vec![format!("{}_{}", sname, u), sname.clone()],
            None => vec![sname.clone()],
        };
        let fam = match fams.iter().find(|f| cands.contains(&f.name)) {
            Some(f) => f,
            None => return Some(("C07:series-missing".into(), format!("no family for metric {:?} (expected name {:?})", m.name, cands))),
        };
        expected_fams.insert(fam.name.clone());
        let bk = if m.kind == 2 { buckets_for(cfg, &sname) } else { None };
        let exp_ty = match m.kind {
            0 => "counter",
            1 => "gauge",
            _ => {
                if bk.is_some() {
                    "histogram"
                } else {
                    "summary"
                }
            }
        };
        if fam.ty != exp_ty {
            return Some(("C07:wrong-type".into(), format!("family {} has type {} expected {}", fam.name, fam.ty, exp_ty)));
        }
        if check_help {
            let exp_help = descs.get(&sname).map(|d| d.0.clone());
            if fam.help != exp_help {
                return Some(("C07:help-not-first-description".into(), format!("family {} HELP {:?}, expected first description {:?}", fam.name, fam.help, exp_help)));
            }
        }
        // with hostile strings only the label *names* are compared (values containing backslashes need not round-trip)
        let mut exp_labels: Vec<(String, String)> = merged_labels(cfg, m).into_iter().map(|(k, v)| (san_label(&k), if check_values { v } else { String::new() })).collect();
        exp_labels.sort();
        // the samples of this series = those whose non-reserved labels equal exp_labels
        let mine: Vec<&(String, Vec<(String, String)>, f64, String)> = fam
            .samples
            .iter()
            .filter(|s| {
                let mut l: Vec<(String, String)> = s.1.iter().filter(|(k, _)| !((m.kind == 2) && (k == "le" || k == "quantile"))).map(|(k, v)| (k.clone(), if check_values { v.clone() } else { String::new() })).collect();
                l.sort();
                l == exp_labels
            })
            .collect();
        if mine.is_empty() {
            return Some(("C07:labels-differ".into(), format!("family {}: no sample carries exactly the labels {:?} (global labels overridden by the key's own); samples: {:?}", fam.name, exp_labels, fam.samples.iter().map(|s| &s.1).collect::<Vec<_>>())));
        }
        if !check_values {
            continue;
        }
        match m.kind {
            0 => {
                if mine.len() != 1 || mine[0].2 != st[i].counter as f64 || mine[0].3 != st[i].counter.to_string() {
                    return Some(("C07:counter-value-differs".into(), format!("counter {}: rendered {:?}, recorded total {}", fam.name, mine.iter().map(|s| s.3.clone()).collect::<Vec<_>>(), st[i].counter)));
                }
            }
            1 => {
                let g = st[i].gauge;
                let ok = mine.len() == 1 && (mine[0].2.to_bits() == g.to_bits() || (g.is_nan() && mine[0].2.is_nan()));
                if !ok {
                    return Some(("C07:gauge-value-differs".into(), format!("gauge {}: rendered {:?}, last value {:?}", fam.name, mine.iter().map(|s| s.3.clone()).collect::<Vec<_>>(), g)));
                }
            }
            _ => {
                let n = st[i].samples.len() as f64;
                let sum: f64 = st[i].samples.iter().sum();
                let count_s: Vec<_> = mine.iter().filter(|s| s.0 == format!("{}_count", fam.name)).collect();
                let sum_s: Vec<_> = mine.iter().filter(|s| s.0 == format!("{}_sum", fam.name)).collect();
                if count_s.len() != 1 || count_s[0].2 != n {
                    return Some(("C07:histogram-count-differs".into(), format!("{}: _count {:?}, samples recorded {}", fam.name, count_s.iter().map(|s| s.3.clone()).collect::<Vec<_>>(), n)));
                }
                let sum_ok = sum_s.len() == 1 && (sum_s[0].2 == sum || (sum.is_nan() && sum_s[0].2.is_nan()));
                if !sum_ok {
                    return Some(("C07:histogram-sum-differs".into(), format!("{}: _sum {:?}, sum recorded {}", fam.name, sum_s.iter().map(|s| s.3.clone()).collect::<Vec<_>>(), sum)));
                }
                if let Some(bk) = &bk {
                    let mut got: Vec<(String, f64)> = mine.iter().filter(|s| s.0 == format!("{}_bucket", fam.name)).map(|s| (s.1.iter().find(|l| l.0 == "le").map(|l| l.1.clone()).unwrap_or_default(), s.2)).collect();
                    let mut exp: Vec<(String, f64)> = bk.iter().map(|b| (b.to_string(), st[i].samples.iter().filter(|s| **s <= *b).count() as f64)).collect();
                    exp.push(("+Inf".into(), n));
                    got.sort_by(|a, b| a.0.cmp(&b.0));
                    exp.sort_by(|a, b| a.0.cmp(&b.0));
                    if got != exp {
                        return Some(("C07:histogram-buckets-differ".into(), format!("{}: buckets {:?}, expected {:?}", fam.name, got, exp)));
                    }
                } else {
                    let qn = mine.iter().filter(|s| s.1.iter().any(|l| l.0 == "quantile")).count();
                    if qn != cfg.quantiles.len() {
                        return Some(("C07:summary-quantile-lines".into(), format!("{}: {} quantile lines, {} quantiles configured", fam.name, qn, cfg.quantiles.len())));
                    }
                }
            }
        }
    }
    for f in fams {
        if !expected_fams.contains(&f.name) {
            return Some(("C07:unexpected-family".into(), format!("family {} is in the output but corresponds to no recorded metric", f.name)));
        }
    }
    None
}

const MILD_NAMES: &[&str] = &["a", "b_total", "req.count", "h1", "lat-ms", "x:y", "é", "9lives", "q", "mem used", "hh", "zz.top"];
const MILD_LK: &[&str] = &["k", "l", "m", "lbl.x", "é", "n1", "deploy-env"];
const MILD_LV: &[&str] = &["", "v", "w x", "\"q\"", "line\nbreak", "é", "{a=\"b\"}"];
const HOSTILE: &[&str] = &[
    "\\", "\\\\", "\\n", "\n", "\"", "\\\"", "a\\", "\\\n", "\\\nx", "\\\"\n", "x\ny 1\n# TYPE z counter\nz 9", "} 1\nevil{a=\"", "\",evil=\"1", "{}", ",", "=", "#", ":", "1abc", "é\u{0}\u{7f}",
    "\r", "\r\n", "a b", "\t", "\u{2028}", "# HELP x y", "", "le", "quantile", "\\\\\"", "\\x", "é\\", "tail\\\\\\", "__name__", "\"\\\n\"",
];

fn gen_cfg(r: &mut Rng, hostile: bool) -> Cfg {
    let global_buckets = if r.chance(1, 3) { Some(vec![0.5, 1.0, 2.5, 100.0]) } else { None };
    let mut overrides = Vec::new();
    for _ in 0..r.usize(3) {
        let pat = if hostile { r.pick(HOSTILE).to_string() + "h" } else { r.pick(&["h", "hh", "lat", "ms", "q", "1"]).to_string() };
        let cls = r.below(3) as u8;
        // at most one override per matcher class: the property orders classes, not candidates within a class
        if overrides.iter().any(|(c, _, _): &(u8, String, Vec<f64>)| *c == cls) {
            continue;
        }
        overrides.push((cls, pat, vec![1.0, 10.0 + overrides.len() as f64]));
    }
    let mut global_labels = Vec::new();
    for _ in 0..r.usize(3) {
        let k = if hostile && r.chance(1, 2) { format!("g{}", r.pick(HOSTILE)) } else { r.pick(&["k", "glob", "l", "lbl.x", "deploy-env", "n1"]).to_string() };
        let v = if hostile { r.pick(HOSTILE).to_string() } else { r.pick(MILD_LV).to_string() };
        global_labels.push((k, v));
    }
    let quantiles = if r.chance(1, 2) { vec![0.0, 0.5, 0.9, 1.0] } else { vec![0.5] };
    Cfg { global_buckets, overrides, global_labels, unit_suffix: r.chance(1, 2), quantiles }
}

/// Metrics honouring the stated precondition: sanitised names distinct (also across kinds and against the names
/// with a unit suffix), sanitised label names distinct over global ∪ own and not le/quantile.
fn gen_metrics(r: &mut Rng, cfg: &mut Cfg, hostile: bool) -> Vec<Metric> {
    // first make the global labels themselves satisfy the precondition
    let mut seen_l: BTreeSet<String> = BTreeSet::new();
    let mut raw_l: BTreeSet<String> = BTreeSet::new();
    cfg.global_labels.retain(|(k, _)| {
        let s = san_label(k);
        !k.is_empty() && s != "le" && s != "quantile" && raw_l.insert(k.clone()) && seen_l.insert(s)
    });
    let n = 1 + r.usize(7);
    let mut used: BTreeSet<String> = BTreeSet::new();
    let mut out = Vec::new();
    for _ in 0..n * 3 {
        if out.len() >= n {
            break;
        }
        let name = if hostile { format!("{}{}", r.pick(HOSTILE), r.pick(&["", "m", "é", "1"])) } else { r.pick(MILD_NAMES).to_string() };
        if name.is_empty() {
            continue;
        }
        let s = san_name(&name);
        // keep clear of names that only differ by something that looks like a suffix the exporter appends
        let stem_clash = used.iter().any(|u| u.starts_with(&s) || s.starts_with(u.as_str()));
        if stem_clash {
            continue;
        }
        used.insert(s);
        let mut labels = Vec::new();
        let mut lseen: BTreeSet<String> = seen_l.clone();
        let mut lraw: BTreeSet<String> = BTreeSet::new();
        for _ in 0..r.usize(4) {
            let k = if r.chance(1, 4) && !cfg.global_labels.is_empty() {
                r.pick(&cfg.global_labels).0.clone() // same raw name as a global label: the key's value wins
            } else if hostile {
                format!("{}{}", r.pick(HOSTILE), r.pick(&["", "k"]))
            } else {
                r.pick(MILD_LK).to_string()
            };
            if k.is_empty() {
                continue;
            }
            let sk = san_label(&k);
            let is_global_raw = cfg.global_labels.iter().any(|(g, _)| *g == k);
            if sk == "le" || sk == "quantile" || !lraw.insert(k.clone()) {
                continue;
            }
            if !is_global_raw && !lseen.insert(sk) {
                continue;
            }
            let v = if hostile { r.pick(HOSTILE).to_string() } else { r.pick(MILD_LV).to_string() };
            labels.push((k, v));
        }
        out.push(Metric { kind: r.below(3) as u8, name, labels });
    }
    out
}

fn render_parsed(e: &Exp) -> Result<(String, Vec<Line>, Vec<Family>), (String, String, String)> {
    let text = e.handle.render();
    let lines = match promparse::parse(&text) {
        Ok(l) => l,
        Err(pe) => return Err(("C08:line-not-well-formed".into(), format!("line {}: {} — {:?}", pe.line_no, pe.msg, pe.line), text)),
    };
    let fams = match promparse::families(&lines) {
        Ok(f) => f,
        Err(m) => return Err(("C08:family-structure".into(), m, text)),
    };
    Ok((text, lines, fams))
}

fn line_set(lines: &[Line]) -> BTreeSet<String> {
    lines
        .iter()
        .filter(|l| match l {
            Line::Sample { labels, .. } => !labels.iter().any(|(k, _)| k == "quantile"),
            Line::Blank => false,
            _ => true,
        })
        .map(|l| format!("{:?}", l))
        .collect()
}

pub fn run(a: &Args) -> Option<Report> {
    match (a.prop.as_str(), a.leg.as_str()) {
        ("C07", "seq") => Some(run_seq(a, false)),
        ("C08", "hostile") => Some(run_seq(a, true)),
        ("C07", "concurrent") | ("C07", "concurrent-hooks") | ("C07", "asan") => Some(run_concurrent(a)),
        ("C07", "directed") => Some(run_directed(a)),
        ("C07", "absolute-race") => Some(run_absolute_race(a)),
        _ => None,
    }
}

/// Two metrics of one kind named X and X_<unit suffix>, both described with that unit: their sanitised names are
/// distinct, so with unit suffixes on they are the families X_<sfx> and X_<sfx>_<sfx>, with suffixes off X and X_<sfx>;
/// either way the exposition has one TYPE line per family and every sample under its own family.
fn unit_twins(a: &Args, rep: &mut Report, r: &mut Rng) {
    let n = a.budget(300, 30_000);
    for _ in 0..n {
        let unit = *r.pick(UNITS);
        let sfx = match unit_suffix(unit) {
            Some(x) => x,
            None => continue,
        };
        let stem = format!("{}{}", r.pick(&["io", "rpc", "q", "mem.used", "é", "x:y", "9p"]), r.pick(&["", "_a", "1"]));
        let twin = format!("{}_{}", stem, sfx);
        let kind = r.below(3) as u8;
        let mut cfg = gen_cfg(r, false);
        cfg.overrides.clear();
        cfg.global_labels.clear();
        cfg.unit_suffix = r.chance(3, 4);
        let e = build(&cfg);
        let mut trace = Vec::new();
        for name in [&stem, &twin] {
            let kn = KeyName::from(name.clone());
            match kind {
                0 => e.rec.describe_counter(kn, Some(unit), SharedString::from("d")),
                1 => e.rec.describe_gauge(kn, Some(unit), SharedString::from("d")),
                _ => e.rec.describe_histogram(kn, Some(unit), SharedString::from("d")),
            }
            let key = Key::from_name(name.clone());
            match kind {
                0 => e.rec.register_counter(&key, &MD).increment(3),
                1 => e.rec.register_gauge(&key, &MD).set(1.5),
                _ => e.rec.register_histogram(&key, &MD).record(0.75),
            }
            trace.push(format!("kind{} {:?} described with {:?} and updated", kind, name, unit));
        }
        let text = e.handle.render();
        rep.case(mix(fnv(twin.as_bytes()), (kind as u64) << 1 | cfg.unit_suffix as u64), true);
        let parsed = promparse::parse(&text).map_err(|pe| format!("line {}: {} — {:?}", pe.line_no, pe.msg, pe.line)).and_then(|l| promparse::families(&l));
        let ctx = jo! {"metrics" => J::A(trace.iter().map(|t| J::s(t.clone())).collect()), "unit_suffix_enabled" => cfg.unit_suffix, "global_buckets" => cfg.global_buckets.is_some(), "output_excerpt" => text.chars().take(500).collect::<String>()};
        match parsed {
            Err(m) => rep.violation("C08:family-structure:name-and-name-plus-unit", jo! {"what" => "two metrics whose names differ by a unit suffix do not render as two well-formed families", "error" => m, "case" => ctx}),
            Ok(fams) => {
                let (s1, s2) = (san_name(&stem), san_name(&twin));
                let mut exp: Vec<String> = if cfg.unit_suffix { vec![format!("{}_{}", s1, sfx), format!("{}_{}", s2, sfx)] } else { vec![s1, s2] };
                exp.sort();
                let mut got: Vec<String> = fams.iter().map(|f| f.name.clone()).collect();
                got.sort();
                if got != exp {
                    rep.violation("C08:family-structure:name-and-name-plus-unit", jo! {"what" => "two metrics whose names differ by a unit suffix are not exposed as the two families their names and units give", "families" => format!("{:?}", got), "expected" => format!("{:?}", exp), "case" => ctx});
                }
            }
        }
    }
}

fn run_seq(a: &Args, hostile: bool) -> Report {
    let pid = if hostile { "C08" } else { "C07" };
    let mut rep = Report::new(pid, &a.leg, a.seed);
    rt::quiet_panics();
    let mut r = Rng::new(a.shard_seed());
    if hostile {
        unit_twins(a, &mut rep, &mut r);
    }
    let n = if hostile { a.budget(6000, 600_000) } else { a.budget(1500, 150_000) };
    for _ in 0..n {
        let mut cfg = gen_cfg(&mut r, hostile);
        let metrics_ = gen_metrics(&mut r, &mut cfg, hostile);
        if metrics_.is_empty() {
            continue;
        }
        // aim an override at a histogram that really exists (whole name, head or tail of it): generic patterns almost
        // never match hostile names, and the per-metric classes must be exercised with and without a unit suffix
        if r.chance(1, 2) {
            if let Some(m) = metrics_.iter().find(|m| m.kind == 2) {
                let cls = r.below(3) as u8;
                let chars: Vec<char> = m.name.chars().collect();
                let cut = 1 + r.usize(chars.len());
                let pat: String = match cls {
                    0 => m.name.clone(),
                    1 => chars[..cut].iter().collect(),
                    _ => chars[chars.len() - cut..].iter().collect(),
                };
                if !cfg.overrides.iter().any(|(c, _, _)| *c == cls) {
                    cfg.overrides.push((cls, pat, vec![0.25, 7.0]));
                    if r.chance(1, 2) {
                        cfg.global_buckets = None;
                    }
                }
            }
        }
        let e = build(&cfg);
        let mut st: Vec<MState> = vec![MState::default(); metrics_.len()];
        let mut descs: BTreeMap<String, (String, Option<Unit>)> = BTreeMap::new();
        let steps = if hostile { 3 + r.usize(12) } else { 5 + r.usize(75) };
        let mut h = fnv(format!("{:?}{:?}", cfg, metrics_).as_bytes());
        let mut trace: Vec<String> = Vec::new();
        let mut last_render: Option<BTreeSet<String>> = None;
        let mut failed = false;
        let ctx = |trace: &Vec<String>| jo! {"config" => format!("{:?}", cfg), "metrics" => J::A(metrics_.iter().map(|m| J::s(format!("{:?}", m))).collect()), "history_tail" => J::A(trace.iter().rev().take(10).rev().map(|s| J::s(s.clone())).collect())};
        for step in 0..=steps {
            if failed {
                break;
            }
            let c = if step == steps { 9 } else { r.below(10) };
            h = mix(h, c);
            match c {
                0..=4 => {
                    let i = r.usize(metrics_.len());
                    let m = &metrics_[i];
                    let key = key_of(m);
                    st[i].touched = true;
                    last_render = None;
                    match m.kind {
                        0 => {
                            let hnd = e.rec.register_counter(&key, &MD);
                            if r.chance(1, 4) {
                                let v = *r.pick(&[0u64, 5, 1 << 40, u64::MAX]);
                                hnd.absolute(v);
                                st[i].counter = st[i].counter.max(v);
                                trace.push(format!("counter#{} absolute {}", i, v));
                            } else {
                                let v = *r.pick(&[0u64, 1, 3, 1 << 33]);
                                hnd.increment(v);
                                st[i].counter = st[i].counter.wrapping_add(v);
                                trace.push(format!("counter#{} += {}", i, v));
                            }
                        }
                        1 => {
                            let hnd = e.rec.register_gauge(&key, &MD);
                            let v = *r.pick(&[0.0f64, -0.0, 1.5, -2.25, 1e300, 5e-324, f64::NAN, f64::INFINITY, f64::NEG_INFINITY, 0.1, 1e21, 123456789.125]);
                            match r.below(3) {
                                0 => {
                                    hnd.set(v);
                                    st[i].gauge = v;
                                }
                                1 => {
                                    hnd.increment(v);
                                    st[i].gauge += v;
                                }
                                _ => {
                                    hnd.decrement(v);
                                    st[i].gauge -= v;
                                }
                            }
                            trace.push(format!("gauge#{} op {:?}", i, v));
                        }
                        _ => {
                            let hnd = e.rec.register_histogram(&key, &MD);
                            let k = *r.pick(&[1usize, 1, 2, 70]);
                            for _ in 0..k {
                                // mostly dyadic values (exact sums); now and then a non-finite one, which still counts
                                let v = if r.chance(1, 40) { *r.pick(&[f64::NAN, f64::INFINITY, f64::NEG_INFINITY]) } else { (r.range(-8, 400) as f64) * 0.25 };
                                hnd.record(v);
                                st[i].samples.push(v);
                            }
                            // now and then a batch through record_many, also an empty one
                            if r.chance(1, 4) {
                                let cnt = *r.pick(&[0usize, 0, 1, 3]);
                                let v = (r.range(-8, 400) as f64) * 0.25;
                                hnd.record_many(v, cnt);
                                for _ in 0..cnt {
                                    st[i].samples.push(v);
                                }
                                trace.push(format!("histogram#{} record_many({}, {})", i, v, cnt));
                            }
                            trace.push(format!("histogram#{} record x{}", i, k));
                        }
                    }
                }
                5 | 6 => {
                    let i = r.usize(metrics_.len());
                    let m = &metrics_[i];
                    let unit = if r.chance(2, 3) { Some(*r.pick(UNITS)) } else { None };
                    let desc = if hostile { r.pick(HOSTILE).to_string() } else { r.pick(&["", "plain help", "with \"quotes\"", "multi\nline", "é"]).to_string() };
                    let kn = KeyName::from(m.name.clone());
                    match m.kind {
                        0 => e.rec.describe_counter(kn, unit, SharedString::from(desc.clone())),
                        1 => e.rec.describe_gauge(kn, unit, SharedString::from(desc.clone())),
                        _ => e.rec.describe_histogram(kn, unit, SharedString::from(desc.clone())),
                    }
                    descs.entry(san_name(&m.name)).or_insert((desc.clone(), unit));
                    last_render = None;
                    trace.push(format!("describe#{} unit={:?} {:?}", i, unit, desc));
                }
                7 => {
                    e.handle.run_upkeep();
                    trace.push("run_upkeep".into());
                }
                _ => {
                    trace.push("render".into());
                    let res = rt::catch(|| render_parsed(&e));
                    let (text, lines, fams) = match res {
                        Err(m) => {
                            rep.violation(format!("{}:render-panicked", pid), jo! {"what" => "render() panicked", "panic" => m, "case" => ctx(&trace)});
                            failed = true;
                            continue;
                        }
                        Ok(Err((sig, what, text))) => {
                            // input class for the signature: unit suffix on and a described unit present?
                            let unit_involved = cfg.unit_suffix && descs.values().any(|d| d.1.and_then(unit_suffix).is_some());
                            let sig = if sig == "C08:family-structure" && unit_involved && (what.contains("does not belong") || what.contains("is not allowed in family")) { "C08:family-structure:unit-suffix-not-in-family-name".to_string() } else { sig };
                            rep.violation(sig, jo! {"what" => what, "output_excerpt" => text.chars().take(600).collect::<String>(), "case" => ctx(&trace)});
                            failed = true;
                            continue;
                        }
                        Ok(Ok(x)) => x,
                    };
                    let _ = text;
                    if let Some((sig, what)) = compare(&cfg, &metrics_, &st, &descs, &fams, !hostile, !hostile) {
                        let sig = if hostile { sig.replace("C07:", "C08:injection-or-loss:") } else { sig };
                        rep.violation(sig, jo! {"what" => what, "case" => ctx(&trace)});
                        failed = true;
                        continue;
                    }
                    let ls = line_set(&lines);
                    if let Some(prev) = &last_render {
                        if *prev != ls {
                            rep.violation("C07:render-not-idempotent", jo! {"what" => "two renders with no update in between differ as line sets", "only_in_first" => J::A(prev.difference(&ls).take(4).map(|s| J::s(s.clone())).collect()), "only_in_second" => J::A(ls.difference(prev).take(4).map(|s| J::s(s.clone())).collect()), "case" => ctx(&trace)});
                            failed = true;
                        }
                    }
                    last_render = Some(ls);
                }
            }
        }
        rep.case(h, metrics_.len() >= 2);
        if rep.want_sample() && metrics_.len() >= 2 {
            rep.sample(jo! {"config" => format!("{:?}", cfg), "metrics" => J::A(metrics_.iter().map(|m| J::s(format!("{:?}", m))).collect()), "history" => J::A(trace.iter().take(14).map(|s| J::s(s.clone())).collect()),
            "last_output_excerpt" => e.handle.render().chars().take(400).collect::<String>()});
        }
    }
    rep
}

/// Recorders on several threads concurrent with render / run_upkeep: interval bounds per render, equality at quiescence.
fn run_concurrent(a: &Args) -> Report {
    let mut rep = Report::new("C07", &a.leg, a.seed);
    let mut r = Rng::new(a.shard_seed());
    let small = a.leg == "asan";
    let n = if small { a.budget(30, 3000) } else { a.budget(200, 20_000) };
    let with_hooks = a.leg == "concurrent-hooks";
    for _ in 0..n {
        let mut cfg = gen_cfg(&mut r, false);
        cfg.unit_suffix = false;
        let use_buckets = r.chance(1, 2);
        cfg.global_buckets = if use_buckets { Some(vec![1.0, 10.0, 100.0]) } else { None };
        cfg.overrides.clear();
        let e = Arc::new(build(&cfg));
        let nrec = 2 + r.usize(6);
        let per = if small { 200 } else { *r.pick(&[50usize, 500, 3000]) };
        let stamp = Arc::new(AtomicU64::new(1));
        // one counter, one gauge, one histogram shared by all recorder threads
        let ctx = if with_hooks { Some(rt::Ctx::new(rt::Policy::Random { num: 1, den: 8, hold: 2 }, false)) } else { None };
        let mut hs = Vec::new();
        for t in 0..nrec {
            let e = e.clone();
            let stamp = stamp.clone();
            let seed = r.next_u64();
            let body = move || {
                let c = e.rec.register_counter(&Key::from_name("cc"), &MD);
                let hst = e.rec.register_histogram(&Key::from_name("hh"), &MD);
                let g = e.rec.register_gauge(&Key::from_parts("gg", vec![Label::new("t", t.to_string())]), &MD);
                let mut r = Rng::new(seed);
                // (kind, call, ret, amount)
                let mut log: Vec<(u8, u64, u64, f64)> = Vec::with_capacity(per * 2);
                for i in 0..per {
                    let call = stamp.fetch_add(1, Ordering::SeqCst);
                    let v = 1 + r.below(3);
                    c.increment(v);
                    let ret = stamp.fetch_add(1, Ordering::SeqCst);
                    log.push((0, call, ret, v as f64));
                    let call = stamp.fetch_add(1, Ordering::SeqCst);
                    let s = (1 + r.below(8)) as f64 * 0.5;
                    hst.record(s);
                    let ret = stamp.fetch_add(1, Ordering::SeqCst);
                    log.push((2, call, ret, s));
                    if i % 7 == 0 {
                        g.set(i as f64);
                    }
                }
                g.set(per as f64);
                log
            };
            if let Some(cx) = &ctx {
                hs.push(rt::spawn_role(cx, t as u8, seed, body));
            } else {
                hs.push(std::thread::spawn(body));
            }
        }
        let nrend = if std::env::var("NREND1").is_ok() { 1 } else { 1 + r.usize(2) };
        let mut rhs = Vec::new();
        for _ in 0..nrend {
            let e = e.clone();
            let stamp = stamp.clone();
            let upkeep_too = r.chance(1, 2);
            let rounds = if small { 10 } else { 30 };
            rhs.push(std::thread::spawn(move || {
                let mut out = Vec::new();
                for k in 0..rounds {
                    if upkeep_too && k % 2 == 1 {
                        e.handle.run_upkeep();
                    }
                    let call = stamp.fetch_add(1, Ordering::SeqCst);
                    let text = e.handle.render();
                    let ret = stamp.fetch_add(1, Ordering::SeqCst);
                    out.push((call, ret, text));
                    std::thread::yield_now();
                }
                out
            }));
        }
        let mut log = Vec::new();
        for h in hs {
            log.extend(h.join().unwrap());
        }
        let mut renders = Vec::new();
        for h in rhs {
            renders.extend(h.join().unwrap());
        }
        if let Some(cx) = &ctx {
            cx.abort.store(true, Ordering::SeqCst);
        }
        // final quiescent render (twice)
        for _ in 0..2 {
            let call = stamp.fetch_add(1, Ordering::SeqCst);
            let text = e.handle.render();
            let ret = stamp.fetch_add(1, Ordering::SeqCst);
            renders.push((call, ret, text));
        }
        renders.sort_by_key(|x| x.0);
        let desc = jo! {"recorder_threads" => nrec, "ops_each" => per, "render_threads" => nrend, "histogram_mode" => if use_buckets {"histogram"} else {"summary"}, "bucket_hooks_random_holds" => with_hooks};
        let total_c: f64 = log.iter().filter(|x| x.0 == 0).map(|x| x.3).sum();
        let total_n = log.iter().filter(|x| x.0 == 2).count() as f64;
        let total_s: f64 = log.iter().filter(|x| x.0 == 2).map(|x| x.3).sum();
        let mut prev: Option<(u64, f64, f64, f64)> = None; // (ret, counter, count, sum)
        let mut hcase = mix(nrec as u64, per as u64);
        let last_idx = renders.len() - 1;
        for (ri, (call, ret, text)) in renders.iter().enumerate() {
            let parsed = promparse::parse(text).map_err(|e| e.msg).and_then(|l| promparse::families(&l).map_err(|m| m));
            let fams = match parsed {
                Ok(f) => f,
                Err(m) => {
                    rep.violation("C08:line-not-well-formed", jo! {"what" => "render during concurrent recording is not well-formed", "error" => m, "run" => desc.clone()});
                    break;
                }
            };
            let val = |fam: &str, sample: &str, lbl: Option<(&str, &str)>| -> Option<f64> {
                fams.iter().find(|f| f.name == fam).and_then(|f| f.samples.iter().find(|s| s.0 == sample && lbl.map(|(k, v)| s.1.iter().any(|l| l.0 == k && l.1 == v)).unwrap_or(true)).map(|s| s.2))
            };
            let c = val("cc", "cc", None).unwrap_or(0.0);
            let cnt = val("hh", "hh_count", None).unwrap_or(0.0);
            let sum = val("hh", "hh_sum", None).unwrap_or(0.0);
            let inf = if use_buckets { val("hh", "hh_bucket", Some(("le", "+Inf"))) } else { None };
            hcase = mix(hcase, (c as u64) ^ ((cnt as u64) << 20));
            let lo_c: f64 = log.iter().filter(|x| x.0 == 0 && x.2 < *call).map(|x| x.3).sum();
            let hi_c: f64 = log.iter().filter(|x| x.0 == 0 && x.1 < *ret).map(|x| x.3).sum();
            let lo_n = log.iter().filter(|x| x.0 == 2 && x.2 < *call).count() as f64;
            let hi_n = log.iter().filter(|x| x.0 == 2 && x.1 < *ret).count() as f64;
            let w = jo! {"render_call" => *call, "render_ret" => *ret, "counter" => c, "hist_count" => cnt, "hist_sum" => sum, "counter_bounds" => J::A(vec![J::F(lo_c), J::F(hi_c)]), "count_bounds" => J::A(vec![J::F(lo_n), J::F(hi_n)]), "run" => desc.clone(), "render_excerpt" => text.chars().take(700).collect::<String>()};
            if c < lo_c || c > hi_c {
                rep.violation("C07:counter-outside-interval-bounds", jo! {"what" => "a render shows a counter total below the increments completed before it began or above those invoked before it returned", "witness" => w.clone()});
            }
            if cnt < lo_n || cnt > hi_n {
                rep.violation(if cnt < lo_n { "C07:histogram-sample-missing" } else { "C07:histogram-sample-counted-early-or-twice" }, jo! {"what" => "a render shows a histogram _count outside [completed-before-call, invoked-before-return]", "witness" => w.clone()});
            }
            if let Some(i) = inf {
                if i != cnt {
                    rep.violation("C07:inf-bucket-differs-from-count", jo! {"what" => "+Inf bucket != _count within one render", "witness" => w.clone()});
                }
            }
            if let Some((pret, pc, pn, _ps)) = prev {
                if pret < *call && (c < pc || cnt < pn) {
                    rep.violation("C07:value-decreased-between-renders", jo! {"what" => "counter or histogram count decreased between two non-overlapping renders", "witness" => w.clone()});
                }
            }
            prev = Some((*ret, c, cnt, sum));
            if ri >= last_idx - 1 {
                // quiescence: exact
                if c != total_c {
                    rep.violation("C07:counter-value-differs", jo! {"what" => "at quiescence the counter != sum of increments", "rendered" => c, "expected" => total_c, "run" => desc.clone()});
                }
                if cnt != total_n || sum != total_s {
                    rep.violation(if cnt < total_n { "C07:histogram-sample-missing" } else if cnt > total_n { "C07:histogram-sample-counted-early-or-twice" } else { "C07:histogram-sum-differs" }, jo! {"what" => "at quiescence histogram _count/_sum != samples recorded (each sample exactly once)", "count" => cnt, "expected_count" => total_n, "sum" => sum, "expected_sum" => total_s, "run" => desc.clone()});
                }
                for t in 0..nrec {
                    let g = val("gg", "gg", Some(("t", &t.to_string())));
                    if g != Some(per as f64) {
                        rep.violation("C07:gauge-value-differs", jo! {"what" => "at quiescence a gauge does not show its last value", "thread" => t, "rendered" => format!("{:?}", g), "expected" => per as f64});
                    }
                }
            }
        }
        rep.case(hcase, true);
        if rep.want_sample() {
            rep.sample(jo! {"run" => desc, "renders" => renders.len(), "recorded_samples" => total_n, "final_excerpt" => renders.last().map(|x| x.2.chars().take(300).collect::<String>()).unwrap_or_default()});
        }
    }
    rep
}

/// Counters driven by absolute() from two threads at the same moment: once both calls have returned, a render must
/// show the higher of the two values (a counter shows its highest absolute value, whoever stored last).
fn run_absolute_race(a: &Args) -> Report {
    let mut rep = Report::new("C07", &a.leg, a.seed);
    let mut cfg = gen_cfg(&mut Rng::new(a.shard_seed()), false);
    cfg.unit_suffix = false;
    cfg.overrides.clear();
    cfg.global_labels.clear();
    let e = Arc::new(build(&cfg));
    let rounds = a.budget(60_000, 3_000_000);
    let round = Arc::new(AtomicU64::new(0));
    let done = Arc::new(AtomicU64::new(0));
    let mut hs = Vec::new();
    for t in 0..2u64 {
        let (e, round, done) = (e.clone(), round.clone(), done.clone());
        hs.push(std::thread::spawn(move || {
            let c = e.rec.register_counter(&Key::from_name("abs_total"), &MD);
            let mut k = 1u64;
            loop {
                let mut spins = 0u32;
                loop {
                    let cur = round.load(Ordering::Acquire);
                    if cur == u64::MAX {
                        return;
                    }
                    if cur >= k {
                        break;
                    }
                    spins += 1;
                    if spins % 2048 == 0 {
                        std::thread::yield_now();
                    }
                }
                // thread 0 stores the higher value in odd rounds, thread 1 in even rounds
                let hi = 2 * k;
                c.absolute(if (k + t) % 2 == 0 { hi } else { hi - 1 });
                done.fetch_add(1, Ordering::AcqRel);
                k += 1;
            }
        }));
    }
    let mut bad: Vec<String> = Vec::new();
    let mut checked = 0u64;
    for k in 1..=rounds {
        round.store(k, Ordering::Release);
        let mut spins = 0u32;
        while done.load(Ordering::Acquire) < 2 * k {
            spins += 1;
            if spins % 2048 == 0 {
                std::thread::yield_now();
            }
        }
        // render every few rounds (rendering dominates the cost); the value shown must be this round's higher value
        if k % 4 == 0 || k < 64 {
            checked += 1;
            let text = e.handle.render();
            let shown: Option<u64> = text.lines().find(|l| l.starts_with("abs_total ")).and_then(|l| l["abs_total ".len()..].trim().parse().ok());
            if shown != Some(2 * k) {
                if bad.len() < 5 {
                    bad.push(format!("round {}: absolute({}) and absolute({}) both returned, render shows {:?}", k, 2 * k, 2 * k - 1, shown));
                }
                if bad.len() >= 5 {
                    break;
                }
            }
        }
    }
    round.store(u64::MAX, Ordering::Release);
    for h in hs {
        let _ = h.join();
    }
    rep.count("rounds_rendered", checked);
    rep.case(mix(checked, 7), true);
    if !bad.is_empty() {
        rep.violation("C07:counter-below-highest-absolute", jo! {"what" => "after two concurrent absolute() calls returned, the rendered counter is not the higher of the two values", "examples" => J::A(bad.into_iter().map(J::s).collect())});
    }
    rep.sample(jo! {"absolute_race_rounds_rendered" => checked});
    rep
}

/// Directed schedule: a render's drain is held between loading the bucket tail and detaching it while a recorder
/// fills the block and hands over to a new one; the render must still report every sample recorded before it began.
fn run_directed(a: &Args) -> Report {
    let mut rep = Report::new("C07", &a.leg, a.seed);
    let mut r = Rng::new(a.shard_seed());
    let n = a.budget(300, 30_000);
    let mut windows = 0u64;
    for t in 0..n {
        let mut cfg = gen_cfg(&mut r, false);
        cfg.unit_suffix = false;
        cfg.overrides.clear();
        cfg.global_labels.clear();
        cfg.global_buckets = if t % 2 == 0 { Some(vec![1.0, 10.0]) } else { None };
        let e = Arc::new(build(&cfg));
        let pre = 1 + r.usize(63);
        let more = 64 + r.usize(80);
        let upkeep_first = r.chance(1, 3);
        let hst = e.rec.register_histogram(&Key::from_name("hh"), &MD);
        for _ in 0..pre {
            hst.record(0.5);
        }
        let rules = vec![
            crate::rt::Rule::new(1, "bucket.clear.after_tail_load", 1, 0, "bucket.push.after_link", 1),
            crate::rt::Rule::new(0, "@start", 1, 1, "bucket.clear.after_tail_load", 1),
        ];
        let ctx = rt::Ctx::new(rt::Policy::Gate(rules), true);
        let e2 = e.clone();
        let rh = rt::spawn_role(&ctx, 1, r.next_u64(), move || {
            if upkeep_first {
                e2.handle.run_upkeep();
            }
            e2.handle.render()
        });
        let h2 = hst.clone();
        let wh = rt::spawn_role(&ctx, 0, r.next_u64(), move || {
            for _ in 0..more {
                h2.record(0.5);
            }
        });
        let text = rh.join().unwrap();
        wh.join().unwrap();
        ctx.abort.store(true, Ordering::SeqCst);
        if ctx.expired.load(Ordering::SeqCst) > 0 {
            rep.inconclusive("gate expired");
            continue;
        }
        let hit = ctx.unsat.load(Ordering::SeqCst) == 0;
        if hit {
            windows += 1;
        }
        let cnt = promparse::parse(&text).ok().and_then(|l| promparse::families(&l).ok()).and_then(|f| f.iter().find(|f| f.name == "hh").and_then(|f| f.samples.iter().find(|s| s.0 == "hh_count").map(|s| s.2)));
        rep.case(mix(pre as u64, more as u64 * 2 + upkeep_first as u64), hit);
        let c = cnt.unwrap_or(0.0);
        if c < pre as f64 || c > (pre + more) as f64 {
            rep.violation(
                if c < pre as f64 { "C07:histogram-sample-missing" } else { "C07:histogram-sample-counted-early-or-twice" },
                jo! {"what" => "a render whose drain was overtaken by a block hand-over reports fewer samples than were recorded before it began", "recorded_before_render" => pre, "recorded_during" => more, "rendered_count" => c, "upkeep_before_render" => upkeep_first, "window_hit" => hit},
            );
        }
        let fin = e.handle.render();
        let fc = promparse::parse(&fin).ok().and_then(|l| promparse::families(&l).ok()).and_then(|f| f.iter().find(|f| f.name == "hh").and_then(|f| f.samples.iter().find(|s| s.0 == "hh_count").map(|s| s.2)));
        if fc != Some((pre + more) as f64) {
            rep.violation("C07:histogram-count-differs", jo! {"what" => "at quiescence _count != samples recorded", "rendered" => format!("{:?}", fc), "expected" => pre + more});
        }
        if rep.want_sample() {
            rep.sample(jo! {"directed" => "render drain held between tail load and detach while a recorder hands over to a new block", "recorded_before_render" => pre, "recorded_during" => more, "rendered_count" => c, "window_hit" => hit});
        }
    }
    rep.count("window:drain-held-across-block-handover", windows);
    rep
}
