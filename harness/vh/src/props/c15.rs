//! C15 — histogram buckets and summary windows mean what Prometheus says they mean.
use crate::rt::{self, fnv, mix, Args, Report, Rng, J};
use metrics_exporter_prometheus::{Distribution, DistributionBuilder, Matcher};
use metrics_util::storage::Histogram;
use metrics_util::{parse_quantiles, Quantile};
use std::collections::HashMap;
use std::num::NonZeroU32;
use std::time::Duration;

fn gen_bounds(r: &mut Rng) -> Vec<f64> {
    let n = 1 + r.usize(8);
    let pool: &[f64] = &[f64::NEG_INFINITY, -100.0, -1.5, -0.0, 0.0, 1e-9, 0.25, 0.5, 1.0, 1.5, 2.0, 10.0, 1e6, 1e300, f64::INFINITY];
    let mut v: Vec<f64> = (0..n).map(|_| *r.pick(pool)).collect();
    v.sort_by(|a, b| a.partial_cmp(b).unwrap());
    v.dedup_by(|a, b| a == b); // -0.0 == 0.0 are the same bound
    v
}

fn gen_sample(r: &mut Rng, bounds: &[f64]) -> f64 {
    match r.below(10) {
        0..=3 => *r.pick(bounds),
        4 => {
            let b = *r.pick(bounds);
            if b.is_finite() {
                b + if r.chance(1, 2) { 1e-9 } else { -1e-9 }
            } else {
                b
            }
        }
        5 => *r.pick(&[f64::INFINITY, f64::NEG_INFINITY, -0.0, 0.0]),
        6 => f64::NAN,
        7 => -(r.f64_unit() * 200.0),
        _ => (r.below(64) as f64) * 0.25,
    }
}

pub fn run(a: &Args) -> Option<Report> {
    match a.leg.as_str() {
        "buckets" => Some(run_buckets(a)),
        "matchers" => Some(run_matchers(a)),
        "window" => Some(run_window(a)),
        "exposed" => Some(run_exposed(a)),
        _ => None,
    }
}

fn run_buckets(a: &Args) -> Report {
    let mut rep = Report::new("C15", &a.leg, a.seed);
    rt::quiet_panics();
    let mut r = Rng::new(a.shard_seed());
    let n = a.budget(8000, 800_000);
    for _ in 0..n {
        let bounds = gen_bounds(&mut r);
        let ns = r.usize(40);
        let dyadic = r.chance(1, 2);
        let samples: Vec<f64> = (0..ns).map(|_| if dyadic { (r.range(-64, 64) as f64) * 0.25 } else { gen_sample(&mut r, &bounds) }).collect();
        let mut single = Histogram::new(&bounds).unwrap();
        let mut batched = Histogram::new(&bounds).unwrap();
        let mut prev: Vec<u64> = vec![0; bounds.len()];
        let mut h = fnv(format!("{:?}", bounds).as_bytes());
        let res = rt::catch(|| {
            let mut viol: Option<(String, String)> = None;
            let mut i = 0;
            while i < samples.len() {
                let k = 1 + r.usize(6).min(samples.len() - i - 0).min(samples.len() - i);
                let k = k.min(samples.len() - i).max(1);
                for s in &samples[i..i + k] {
                    single.record(*s);
                }
                batched.record_many(samples[i..i + k].iter());
                i += k;
                h = mix(h, k as u64);
                // after every batch: counts never decrease across "renders"
                for (j, (_, c)) in batched.buckets().iter().enumerate() {
                    if *c < prev[j] {
                        viol = Some(("C15:bucket-count-decreased-over-time".into(), format!("bound #{} went from {} to {}", j, prev[j], c)));
                    }
                    prev[j] = *c;
                }
            }
            viol
        });
        rep.case(h, ns > 0);
        let ctx = || jo! {"bounds" => J::A(bounds.iter().map(|b| J::F(*b)).collect()), "samples" => J::A(samples.iter().map(|b| J::F(*b)).collect())};
        match res {
            Err(m) => {
                rep.violation("C15:panic", jo! {"what" => "histogram recording panicked", "panic" => m, "case" => ctx()});
                continue;
            }
            Ok(Some((sig, what))) => rep.violation(sig, jo! {"what" => what, "case" => ctx()}),
            Ok(None) => {}
        }
        for (which, hst) in [("record", &single), ("record_many", &batched)] {
            let bk = hst.buckets();
            let mut last = 0u64;
            for (b, c) in &bk {
                let exp = samples.iter().filter(|s| **s <= *b).count() as u64;
                if *c != exp {
                    rep.violation(format!("C15:bucket-count-wrong:{}", which), jo! {"what" => "count for a bound != number of samples <= bound", "bound" => *b, "got" => *c, "expected" => exp, "case" => ctx()});
                    break;
                }
                if *c < last {
                    rep.violation(format!("C15:bucket-counts-not-cumulative:{}", which), jo! {"what" => "counts decrease from one bound to the next", "case" => ctx()});
                    break;
                }
                last = *c;
            }
            if hst.count() != samples.len() as u64 {
                rep.violation(format!("C15:total-count-wrong:{}", which), jo! {"what" => "count() != samples recorded (+Inf bucket)", "got" => hst.count(), "case" => ctx()});
            }
        }
        if single.buckets() != batched.buckets() || single.count() != batched.count() {
            rep.violation("C15:single-vs-batched-differ", jo! {"what" => "recording singly and in batches gives different bucket counts", "case" => ctx()});
        }
        let (s1, s2) = (single.sum(), batched.sum());
        let exact: f64 = samples.iter().sum();
        let sums_ok = if samples.iter().any(|s| s.is_nan()) || exact.is_nan() {
            s1.is_nan() && s2.is_nan() || (exact.is_nan() && s1.is_nan() == s2.is_nan())
        } else if dyadic {
            s1 == exact && s2 == exact
        } else if exact.is_infinite() {
            s1 == exact && s2 == exact
        } else {
            let tol = 1e-12 * samples.iter().map(|s| s.abs()).sum::<f64>().max(1e-300);
            (s1 - exact).abs() <= tol && (s2 - exact).abs() <= tol
        };
        if !sums_ok {
            rep.violation("C15:sum-wrong", jo! {"what" => "sum() does not equal the sum of the samples (exact on dyadic samples)", "single" => s1, "batched" => s2, "expected" => exact, "case" => ctx()});
        }
        if rep.want_sample() && ns > 5 {
            rep.sample(jo! {"case" => ctx(), "buckets" => J::A(batched.buckets().iter().map(|(b, c)| J::s(format!("le={} -> {}", b, c))).collect())});
        }
    }
    rep
}

const MNAMES: &[&str] = &["a", "ab", "abc", "a_b", "http_request_seconds", "http_", "_seconds", "x.y", "x_y", "seconds", "http_request", "é", "", "job:lat", "job:"];

fn run_matchers(a: &Args) -> Report {
    let mut rep = Report::new("C15", &a.leg, a.seed);
    let mut r = Rng::new(a.shard_seed());
    let n = a.budget(20_000, 2_000_000);
    for _ in 0..n {
        let nm = r.usize(6);
        let mut overrides: HashMap<Matcher, Vec<f64>> = HashMap::new();
        let mut list: Vec<(u8, String, f64)> = Vec::new();
        for i in 0..nm {
            let pat = r.pick(MNAMES).to_string();
            let tag = (i + 1) as f64; // bucket set identified by its single bound
            let (m, cls) = match r.below(3) {
                0 => (Matcher::Full(pat.clone()), 0u8),
                1 => (Matcher::Prefix(pat.clone()), 1u8),
                _ => (Matcher::Suffix(pat.clone()), 2u8),
            };
            if overrides.insert(m, vec![tag]).is_none() {
                list.push((cls, pat, tag));
            } else {
                list.retain(|(c, p, _)| !(*c == cls && *p == pat));
                list.push((cls, pat, tag));
            }
        }
        let global = if r.chance(1, 3) { Some(vec![99.0]) } else { None };
        let db = DistributionBuilder::new(parse_quantiles(&[0.5, 0.9]), None, global.clone(), None, if nm == 0 && r.chance(1, 2) { None } else { Some(overrides) });
        let name = r.pick(MNAMES).to_string();
        // reference precedence: full > prefix > suffix > global > summary
        let mut best: Option<(u8, f64)> = None;
        let mut ties = 0;
        for (cls, pat, tag) in &list {
            let m = match cls {
                0 => name == *pat,
                1 => name.starts_with(pat.as_str()),
                _ => name.ends_with(pat.as_str()),
            };
            if m {
                match best {
                    Some((bc, _)) if bc < *cls => {}
                    Some((bc, _)) if bc == *cls => ties += 1,
                    _ => best = Some((*cls, *tag)),
                }
            }
        }
        let dist = db.get_distribution(&name);
        let ty = db.get_distribution_type(&name).to_string();
        let mut h = fnv(name.as_bytes());
        for (c, p, _) in &list {
            h = mix(h, fnv(p.as_bytes()) ^ *c as u64);
        }
        rep.case(mix(h, global.is_some() as u64), list.len() >= 2);
        let got = match &dist {
            Distribution::Histogram(hh) => Some(hh.buckets()[0].0),
            Distribution::Summary(..) => None,
        };
        let ctx = jo! {"name" => name.clone(), "overrides" => J::A(list.iter().map(|(c, p, t)| J::s(format!("{}({:?}) -> buckets[{}]", ["Full", "Prefix", "Suffix"][*c as usize], p, t))).collect()), "global_buckets" => global.is_some(), "got_first_bound" => format!("{:?}", got), "type" => ty.clone()};
        let exp_type = if best.is_some() || global.is_some() { "histogram" } else { "summary" };
        if ty != exp_type || got.is_some() != (exp_type == "histogram") {
            rep.violation("C15:wrong-exposed-type", jo! {"what" => "a name is exposed as histogram/summary contrary to whether buckets apply to it", "expected" => exp_type, "case" => ctx.clone()});
            continue;
        }
        // which bucket set: only judged when the winning class has a single candidate (ties within one class are not ordered by the property)
        if let Some((cls, tag)) = best {
            let same_class_matches = list
                .iter()
                .filter(|(c, p, _)| *c == cls && match c { 0 => name == *p, 1 => name.starts_with(p.as_str()), _ => name.ends_with(p.as_str()) })
                .count();
            let _ = ties;
            if same_class_matches == 1 && got != Some(tag) {
                rep.violation("C15:wrong-bucket-precedence", jo! {"what" => "buckets were not chosen as full-name override first, then prefix, then suffix, then global", "expected_first_bound" => tag, "case" => ctx.clone()});
            }
        } else if global.is_some() && got != Some(99.0) {
            rep.violation("C15:wrong-bucket-precedence", jo! {"what" => "global buckets not applied when no override matches", "case" => ctx.clone()});
        }
        if rep.want_sample() && list.len() >= 3 && best.is_some() {
            rep.sample(ctx);
        }
    }
    rep
}

/// The same question asked of the rendered exposition: a histogram name is exposed as a Prometheus histogram (TYPE
/// histogram, `_bucket{le=…}` series for exactly the chosen bounds and +Inf) exactly when buckets apply to it, and as a
/// summary otherwise — also when the family name carries a unit suffix that the metric name does not.
fn run_exposed(a: &Args) -> Report {
    use crate::promparse;
    use crate::props::c07::{san_name, unit_suffix, UNITS};
    use metrics::{Key, KeyName, Level, Metadata, Recorder, SharedString};
    use metrics_exporter_prometheus::PrometheusBuilder;
    static MD: Metadata<'static> = Metadata::new("c15", Level::INFO, None);
    let mut rep = Report::new("C15", &a.leg, a.seed);
    let mut r = Rng::new(a.shard_seed());
    let n = a.budget(4_000, 400_000);
    const NAMES: &[&str] = &["a", "ab", "abc", "a_b", "http_request", "http_request_seconds", "lat_ms", "x.y", "req_bytes", "seconds", "é1", "job:lat", "node:cpu.ms"];
    const PATS: &[&str] = &["a", "ab", "http_", "_seconds", "seconds", "_ms", "_bytes", "bytes", "x_y", "http_request", "req", "lat_ms"];
    for _ in 0..n {
        let mut list: Vec<(u8, String, f64)> = Vec::new();
        let mut b = PrometheusBuilder::new();
        let unit_on = r.chance(1, 2);
        b = b.set_enable_unit_suffix(unit_on);
        let name = r.pick(NAMES).to_string();
        let sname = san_name(&name);
        for i in 0..r.usize(4) {
            let cls = r.below(3) as u8;
            let pat = if r.chance(1, 3) {
                // aimed at the metric itself: whole name, a head or a tail of it
                let cs: Vec<char> = sname.chars().collect();
                let cut = 1 + r.usize(cs.len());
                match cls {
                    0 => sname.clone(),
                    1 => cs[..cut].iter().collect(),
                    _ => cs[cs.len() - cut..].iter().collect(),
                }
            } else {
                r.pick(PATS).to_string()
            };
            if list.iter().any(|(c, p, _)| *c == cls && *p == pat) {
                continue;
            }
            let tag = (i + 1) as f64 * 3.0;
            let m = match cls {
                0 => Matcher::Full(pat.clone()),
                1 => Matcher::Prefix(pat.clone()),
                _ => Matcher::Suffix(pat.clone()),
            };
            b = b.set_buckets_for_metric(m, &[tag, 1000.0]).unwrap();
            list.push((cls, pat, tag));
        }
        let global = r.chance(1, 4);
        if global {
            b = b.set_buckets(&[99.0, 1000.0]).unwrap();
        }
        // the summary's rolling window: bucket count and bucket duration set independently (defaults 3 x 20 s)
        let cfg_count: Option<u32> = *r.pick(&[None, None, Some(1), Some(2), Some(5)]);
        let cfg_dur: Option<u64> = *r.pick(&[None, None, Some(5), Some(40)]);
        if let Some(c) = cfg_count {
            b = b.set_bucket_count(NonZeroU32::new(c).unwrap());
        }
        if let Some(d) = cfg_dur {
            b = b.set_bucket_duration(Duration::from_secs(d)).unwrap();
        }
        let bucket_secs = cfg_dur.unwrap_or(20);
        let window_secs = cfg_count.unwrap_or(3) as u64 * bucket_secs;
        let (clock, mock) = quanta::Clock::mock();
        mock.increment(Duration::from_secs(1000));
        let rec = b.verif_build_with_clock(clock.clone());
        let handle = rec.handle();
        let unit = if r.chance(2, 3) { Some(*r.pick(UNITS)) } else { None };
        let described = r.chance(3, 4);
        let before = r.chance(1, 2);
        if described && before {
            rec.describe_histogram(KeyName::from(name.clone()), unit, SharedString::from("d"));
        }
        let hst = rec.register_histogram(&Key::from_name(name.clone()), &MD);
        // the last sample is beyond every finite bound; sometimes it is infinite (a summary's sketch cannot hold it)
        let samples = [0.5, 5.0, 50.0, if r.chance(1, 3) { f64::INFINITY } else { 5000.0 }];
        // Instant::now() inside the exporter (sample stamps, the window's "now") follows the mock clock on this thread
        quanta::with_clock(&clock, || {
            for v in samples {
                hst.record(v);
            }
        });
        // sometimes the rendering happens after every sample has left the summary's rolling window (default 3 x 20 s)
        let aged = r.chance(1, 2);
        // 0 = not aged; otherwise certainly outside the window (more than window + one bucket old) or certainly inside
        // (less than window - one bucket old, when the window has more than one bucket)
        let mut age_class = 0u8;
        if aged {
            let _ = quanta::with_clock(&clock, || handle.render()); // samples are pulled into the distribution at their recording time
            let inside_possible = window_secs > 2 * bucket_secs;
            let age = if inside_possible && r.chance(1, 3) {
                age_class = 2;
                (window_secs - bucket_secs) / 2
            } else {
                age_class = 1;
                *r.pick(&[window_secs + bucket_secs + 1, window_secs + bucket_secs + 1, 3600 + window_secs])
            };
            mock.increment(Duration::from_secs(age));
        }
        if described && !before {
            rec.describe_histogram(KeyName::from(name.clone()), unit, SharedString::from("d"));
        }
        let text = quanta::with_clock(&clock, || handle.render());
        // reference
        // patterns are sanitised as metric names by the builder (a leading digit becomes '_')
        let matches = |c: u8, p: &str| {
            let p = san_name(p);
            match c {
                0 => sname == p,
                1 => sname.starts_with(p.as_str()),
                _ => sname.ends_with(p.as_str()),
            }
        };
        let mut best: Option<u8> = None;
        for (c, p, _) in &list {
            if matches(*c, p) && best.map(|bc| *c < bc).unwrap_or(true) {
                best = Some(*c);
            }
        }
        let cands: Vec<f64> = best.map(|bc| list.iter().filter(|(c, p, _)| *c == bc && matches(*c, p)).map(|x| x.2).collect()).unwrap_or_default();
        let exp_hist = best.is_some() || global;
        let suffix = if unit_on && described { unit.and_then(unit_suffix) } else { None };
        let fam_name = match suffix {
            Some(sfx) => format!("{}_{}", sname, sfx),
            None => sname.clone(),
        };
        let mut h = fnv(name.as_bytes());
        for (c, p, _) in &list {
            h = mix(h, fnv(p.as_bytes()) ^ *c as u64);
        }
        rep.case(mix(mix(h, global as u64), fnv(fam_name.as_bytes())), !list.is_empty() && suffix.is_some());
        let ctx = jo! {"name" => name.clone(), "unit_suffix_enabled" => unit_on, "unit" => format!("{:?}", unit), "described" => described,
        "overrides" => J::A(list.iter().map(|(c, p, t)| J::s(format!("{}({:?}) -> [{}, 1000]", ["Full", "Prefix", "Suffix"][*c as usize], p, t))).collect()), "global_buckets" => global, "samples" => format!("{:?}", samples), "rendered_after_window_expired" => aged, "output" => text.chars().take(500).collect::<String>()};
        let fams = match promparse::parse(&text).map_err(|e| format!("line {}: {}", e.line_no, e.msg)).and_then(|l| promparse::families(&l)) {
            Ok(f) => f,
            Err(e) => {
                rep.violation("C15:exposition-malformed", jo! {"what" => "the rendering of a single histogram does not parse as well-formed families", "error" => e, "case" => ctx.clone()});
                continue;
            }
        };
        let fam = match fams.iter().find(|f| f.name == fam_name) {
            Some(f) => f,
            None => {
                rep.violation("C15:family-missing", jo! {"what" => "no family under the expected name", "expected_family" => fam_name, "case" => ctx.clone()});
                continue;
            }
        };
        let exp_ty = if exp_hist { "histogram" } else { "summary" };
        let has_bucket = fam.samples.iter().any(|s| s.0.ends_with("_bucket") && s.1.iter().any(|(k, _)| k == "le"));
        let has_quant = fam.samples.iter().any(|s| s.1.iter().any(|(k, _)| k == "quantile"));
        if fam.ty != exp_ty || has_bucket != exp_hist || has_quant == exp_hist {
            rep.violation("C15:wrong-exposed-type", jo! {"what" => "a name is exposed as histogram/summary contrary to whether buckets apply to it (TYPE line and series shape must both agree)", "expected" => exp_ty, "type_line" => fam.ty.clone(), "has_bucket_series" => has_bucket, "has_quantile_series" => has_quant, "case" => ctx.clone()});
            continue;
        }
        // _sum and _count cover every sample ever recorded, for histograms and summaries alike, whatever the window holds
        let cnt = fam.samples.iter().find(|s| s.0 == format!("{}_count", fam_name)).map(|s| s.2);
        let sum = fam.samples.iter().find(|s| s.0 == format!("{}_sum", fam_name)).map(|s| s.2);
        let exp_sum: f64 = samples.iter().sum();
        if cnt != Some(4.0) || sum != Some(exp_sum) {
            rep.violation(if exp_hist { "C15:histogram-sum-count-not-covering-all" } else { "C15:summary-sum-count-not-covering-all" }, jo! {"what" => "the exposed _sum/_count do not cover all samples recorded", "count" => format!("{:?}", cnt), "expected_count" => 4, "sum" => format!("{:?}", sum), "expected_sum" => format!("{:?}", exp_sum), "rendered_after_window_expired" => aged, "case" => ctx.clone()});
            continue;
        }
        if !exp_hist && age_class != 0 {
            // quantiles come from the samples inside the rolling window only
            let qmax = fam.samples.iter().filter(|s| s.1.iter().any(|(k, _)| k == "quantile")).map(|s| s.2).fold(0.0f64, f64::max);
            if age_class == 1 && qmax != 0.0 {
                rep.violation("C15:expired-sample-influences-quantile:exposed", jo! {"what" => "samples older than bucket count x bucket duration (by more than one bucket) still shape the exposed quantiles", "window_secs" => window_secs, "bucket_count_configured" => format!("{:?}", cfg_count), "bucket_duration_configured_secs" => format!("{:?}", cfg_dur), "largest_quantile_value" => qmax, "case" => ctx.clone()});
                continue;
            }
            if age_class == 2 && qmax < 40.0 {
                rep.violation("C15:in-window-sample-missing:exposed", jo! {"what" => "samples younger than the rolling window (by more than one bucket) no longer shape the exposed quantiles", "window_secs" => window_secs, "bucket_count_configured" => format!("{:?}", cfg_count), "bucket_duration_configured_secs" => format!("{:?}", cfg_dur), "largest_quantile_value" => qmax, "case" => ctx.clone()});
                continue;
            }
        }
        if exp_hist {
            let les: Vec<String> = fam.samples.iter().filter(|s| s.0.ends_with("_bucket")).filter_map(|s| s.1.iter().find(|(k, _)| k == "le").map(|x| x.1.clone())).collect();
            let first: Option<f64> = les.first().and_then(|x| x.parse().ok());
            let exp_first: Option<f64> = if best.is_some() { if cands.len() == 1 { Some(cands[0]) } else { None } } else { Some(99.0) };
            if let Some(ef) = exp_first {
                if first != Some(ef) || les.len() != 3 || les.last().map(|s| s.as_str()) != Some("+Inf") {
                    rep.violation("C15:wrong-bucket-precedence", jo! {"what" => "exposed bucket bounds are not those of full > prefix > suffix > global", "expected_bounds" => format!("[{}, 1000, +Inf]", ef), "le_values" => J::A(les.iter().map(|s| J::s(s.clone())).collect()), "case" => ctx.clone()});
                    continue;
                }
                // counts: samples <= b
                let counts: Vec<f64> = fam.samples.iter().filter(|s| s.0.ends_with("_bucket")).map(|s| s.2).collect();
                let expc: Vec<f64> = vec![samples.iter().filter(|v| **v <= ef).count() as f64, 3.0, 4.0];
                if counts != expc {
                    rep.violation("C15:bucket-count-wrong:exposed", jo! {"what" => "exposed cumulative counts are not the number of samples <= bound", "expected" => format!("{:?}", expc), "got" => format!("{:?}", counts), "case" => ctx.clone()});
                }
            }
        }
        if rep.want_sample() && !list.is_empty() && suffix.is_some() {
            rep.sample(ctx);
        }
    }
    rep
}

fn run_window(a: &Args) -> Report {
    let mut rep = Report::new("C15", &a.leg, a.seed);
    rt::quiet_panics();
    let mut r = Rng::new(a.shard_seed());
    let n = a.budget(6000, 600_000);
    let qs: Vec<Quantile> = parse_quantiles(&[0.0, 0.5, 0.9, 0.99, 1.0]);
    for _ in 0..n {
        let (clock, mock) = quanta::Clock::mock();
        let count = 1 + r.below(5) as u32;
        let dur_ns: u64 = *r.pick(&[1u64, 10, 1_000, 1_000_000_000, 20_000_000_000]);
        let dur = Duration::from_nanos(dur_ns);
        let window = dur_ns * count as u64;
        mock.increment(Duration::from_nanos(window * 3 + 17)); // so that now - window never underflows the mock epoch
        let mut dist = Distribution::new_summary(std::sync::Arc::new(qs.clone()), dur, NonZeroU32::new(count).unwrap());
        let mut t_now: u64 = 0; // ns since start
        let mut samples: Vec<(u64, f64)> = Vec::new();
        let mut pending: Vec<(f64, quanta::Instant)> = Vec::new();
        let steps = 1 + r.usize(30);
        let mut h = mix(count as u64, dur_ns);
        let mut trace: Vec<String> = Vec::new();
        for _ in 0..steps {
            // advance by a step around bucket / window edges
            let adv = match r.below(8) {
                0 => 0,
                1 => 1,
                2 => dur_ns,
                3 => dur_ns.saturating_sub(1),
                4 => window,
                5 => window + 1,
                6 => window.saturating_sub(1).max(1),
                _ => r.below(window * 2 + 2),
            };
            mock.increment(Duration::from_nanos(adv));
            t_now += adv;
            h = mix(h, adv % 1000 + (adv / dur_ns.max(1)).min(50) * 1000);
            if r.chance(3, 4) {
                let big = r.chance(1, 6);
                let v = if big { 1e9 + r.below(10) as f64 } else { 1.0 + r.below(100) as f64 };
                let now = clock.now();
                samples.push((t_now, v));
                if r.chance(1, 3) {
                    // recorded now, handed to the distribution later in one batch with other samples (as a drained block
                    // is): every sample keeps its own recording time
                    pending.push((v, now));
                    trace.push(format!("t={} add {} (stays in the pending block)", t_now, v));
                } else {
                    pending.push((v, now));
                    let batch = std::mem::take(&mut pending);
                    let res = rt::catch(|| dist.record_samples(&batch));
                    if let Err(m) = res {
                        rep.violation("C15:panic", jo! {"what" => "summary add panicked", "panic" => m});
                        break;
                    }
                    trace.push(format!("t={} add {} (block of {} samples handed over)", t_now, v, batch.len()));
                }
            } else {
                // snapshot (an exporter drains the pending block first)
                let now = clock.now();
                if !pending.is_empty() {
                    let batch = std::mem::take(&mut pending);
                    if let Err(m) = rt::catch(|| dist.record_samples(&batch)) {
                        rep.violation("C15:panic", jo! {"what" => "summary add panicked", "panic" => m});
                        break;
                    }
                }
                if let Distribution::Summary(rs, _, sum) = &dist {
                    let snap = match rt::catch(|| rs.snapshot(now)) {
                        Ok(s) => s,
                        Err(m) => {
                            rep.violation("C15:panic", jo! {"what" => "summary snapshot panicked", "panic" => m});
                            break;
                        }
                    };
                    let certain: Vec<f64> = samples.iter().filter(|(t, _)| t_now - *t + dur_ns <= window).map(|x| x.1).collect();
                    let maybe: Vec<f64> = samples.iter().filter(|(t, _)| t_now - *t < window && t_now - *t + dur_ns > window).map(|x| x.1).collect();
                    let total: f64 = samples.iter().map(|x| x.1).sum();
                    trace.push(format!("t={} snapshot: window_count={} certain={} maybe={}", t_now, snap.count(), certain.len(), maybe.len()));
                    let ctx = jo! {"bucket_count" => count as u64, "bucket_duration_ns" => dur_ns, "trace_tail" => J::A(trace.iter().rev().take(14).rev().map(|s| J::s(s.clone())).collect())};
                    if rs.count() != samples.len() || (*sum - total).abs() > 1e-6 * total.abs().max(1.0) {
                        rep.violation("C15:summary-sum-count-not-covering-all", jo! {"what" => "_sum/_count of a summary do not cover all samples ever recorded", "count" => rs.count(), "expected_count" => samples.len(), "sum" => *sum, "expected_sum" => total, "case" => ctx.clone()});
                    }
                    let all: Vec<f64> = certain.iter().chain(maybe.iter()).cloned().collect();
                    if snap.count() < certain.len() || snap.count() > all.len() {
                        rep.violation(
                            if snap.count() > all.len() { "C15:expired-sample-still-in-window" } else { "C15:in-window-sample-missing" },
                            jo! {"what" => "number of samples in the rolling window is outside [certainly-in, possibly-in]", "window_count" => snap.count(), "certainly_in" => certain.len(), "possibly_in" => all.len(), "case" => ctx.clone()},
                        );
                    }
                    for q in &qs {
                        let got = snap.quantile(q.value());
                        if all.is_empty() {
                            if got.unwrap_or(0.0) != 0.0 {
                                rep.violation("C15:empty-window-nonzero-quantile", jo! {"what" => "quantile of an empty window is not 0", "q" => q.value(), "got" => got.unwrap_or(0.0), "case" => ctx.clone()});
                            }
                            continue;
                        }
                        if certain.is_empty() && got.is_none() {
                            continue; // only maybe-samples: empty window is acceptable
                        }
                        let lo = all.iter().cloned().fold(f64::INFINITY, f64::min);
                        let hi = all.iter().cloned().fold(f64::NEG_INFINITY, f64::max);
                        match got {
                            None => rep.violation("C15:in-window-sample-missing", jo! {"what" => "window with certainly-present samples reported no quantile", "q" => q.value(), "case" => ctx.clone()}),
                            Some(g) => {
                                if !(g >= lo * (1.0 - 1e-3) && g <= hi * (1.0 + 1e-3)) {
                                    rep.violation(
                                        if g > hi { "C15:expired-sample-influences-quantile" } else { "C15:quantile-out-of-range" },
                                        jo! {"what" => "summary quantile lies outside [min,max] of the samples that can be in the window", "q" => q.value(), "got" => g, "min" => lo, "max" => hi, "case" => ctx.clone()},
                                    );
                                }
                            }
                        }
                    }
                }
            }
        }
        rep.case(h, samples.len() >= 2);
        if rep.want_sample() && trace.len() > 8 {
            rep.sample(jo! {"bucket_count" => count as u64, "bucket_duration_ns" => dur_ns, "trace" => J::A(trace.iter().take(16).map(|s| J::s(s.clone())).collect())});
        }
    }
    rep
}
