//! C11 — the TCP exporter streams whole frames to every connected client, whatever others do.
use crate::rt::{self, mix, Args, Report, Rng, J};
use metrics::{Key, KeyName, Label, Level, Metadata, Recorder, SharedString, Unit};
use metrics_exporter_tcp::TcpBuilder;
use std::collections::{BTreeMap, HashMap};
use std::io::Read;
use std::net::{Shutdown, SocketAddr, TcpListener, TcpStream};
use std::sync::atomic::{AtomicBool, Ordering};
use std::sync::{Arc, Mutex};
use std::time::{Duration, Instant};

static MD: Metadata<'static> = Metadata::new("c11", Level::INFO, None);

// ------------------------------------------------------------------------------------------
// hand-written protobuf decoding of event.proto
// ------------------------------------------------------------------------------------------
#[derive(Clone, Debug, PartialEq)]
enum Frame {
    Metadata { name: String, ty: u64, unit: Option<String>, desc: Option<String> },
    Metric { name: String, labels: BTreeMap<String, String>, op: u32, bits: u64 },
}

fn varint(b: &[u8], i: &mut usize) -> Option<u64> {
    let mut v = 0u64;
    let mut shift = 0;
    loop {
        if *i >= b.len() || shift > 63 {
            return None;
        }
        let x = b[*i];
        *i += 1;
        v |= ((x & 0x7f) as u64) << shift;
        if x & 0x80 == 0 {
            return Some(v);
        }
        shift += 7;
    }
}

fn fields(b: &[u8]) -> Result<Vec<(u32, u8, u64, Vec<u8>)>, String> {
    // (field number, wire type, varint/fixed value, bytes)
    let mut out = Vec::new();
    let mut i = 0;
    while i < b.len() {
        let tag = varint(b, &mut i).ok_or("bad tag")?;
        let (f, w) = ((tag >> 3) as u32, (tag & 7) as u8);
        match w {
            0 => out.push((f, w, varint(b, &mut i).ok_or("bad varint")?, vec![])),
            1 => {
                if i + 8 > b.len() {
                    return Err("truncated fixed64".into());
                }
                let mut x = [0u8; 8];
                x.copy_from_slice(&b[i..i + 8]);
                i += 8;
                out.push((f, w, u64::from_le_bytes(x), vec![]));
            }
            2 => {
                let n = varint(b, &mut i).ok_or("bad len")? as usize;
                if i + n > b.len() {
                    return Err("truncated length-delimited field".into());
                }
                out.push((f, w, 0, b[i..i + n].to_vec()));
                i += n;
            }
            _ => return Err(format!("unsupported wire type {}", w)),
        }
    }
    Ok(out)
}

fn s(b: &[u8]) -> Result<String, String> {
    String::from_utf8(b.to_vec()).map_err(|_| "non-UTF8 string".to_string())
}

fn decode_event(b: &[u8]) -> Result<Frame, String> {
    let fs = fields(b)?;
    if fs.len() != 1 {
        return Err(format!("Event with {} fields", fs.len()));
    }
    let (f, w, _, body) = &fs[0];
    if *w != 2 {
        return Err("Event payload not length-delimited".into());
    }
    match f {
        1 => {
            let mut name = String::new();
            let (mut ty, mut unit, mut desc) = (0, None, None);
            for (ff, _, v, bb) in fields(body)? {
                match ff {
                    1 => name = s(&bb)?,
                    2 => ty = v,
                    3 => unit = Some(s(&bb)?),
                    4 => desc = Some(s(&bb)?),
                    _ => return Err(format!("unknown Metadata field {}", ff)),
                }
            }
            Ok(Frame::Metadata { name, ty, unit, desc })
        }
        2 => {
            let mut name = String::new();
            let mut labels = BTreeMap::new();
            let mut op = None;
            for (ff, _, v, bb) in fields(body)? {
                match ff {
                    1 => name = s(&bb)?,
                    2 => {
                        fields(&bb)?;
                    }
                    3 => {
                        let (mut k, mut val) = (String::new(), String::new());
                        for (ef, _, _, eb) in fields(&bb)? {
                            match ef {
                                1 => k = s(&eb)?,
                                2 => val = s(&eb)?,
                                _ => return Err("bad map entry".into()),
                            }
                        }
                        labels.insert(k, val);
                    }
                    4..=9 => {
                        if op.is_some() {
                            return Err("two operations in one Metric".into());
                        }
                        op = Some((ff, v));
                    }
                    _ => return Err(format!("unknown Metric field {}", ff)),
                }
            }
            let (op, bits) = op.ok_or("Metric without operation")?;
            Ok(Frame::Metric { name, labels, op, bits })
        }
        _ => Err(format!("unknown Event field {}", f)),
    }
}

/// Split a captured byte stream into frames. Returns (frames, trailing bytes that are not a whole frame).
fn deframe(b: &[u8]) -> Result<(Vec<Frame>, usize), String> {
    let mut out = Vec::new();
    let mut i = 0;
    loop {
        let start = i;
        if i >= b.len() {
            return Ok((out, 0));
        }
        let mut j = i;
        let n = match varint(b, &mut j) {
            Some(n) => n as usize,
            None => return Ok((out, b.len() - start)),
        };
        if n > 1 << 20 {
            return Err(format!("implausible frame length {} at offset {}", n, start));
        }
        if j + n > b.len() {
            return Ok((out, b.len() - start));
        }
        out.push(decode_event(&b[j..j + n]).map_err(|e| format!("frame at offset {}: {}", start, e))?);
        i = j + n;
    }
}

// ------------------------------------------------------------------------------------------
struct Client {
    id: usize,
    stream: Option<TcpStream>,
    buf: Arc<Mutex<Vec<u8>>>,
    reading: Arc<AtomicBool>,
    stop: Arc<AtomicBool>,
    closed_by_us: bool,
    connected_after_burst: usize,
    joined_sent: Vec<i64>,
    reader: Option<std::thread::JoinHandle<()>>,
    behaviour: &'static str,
    /// set by the reader thread when the peer (the exporter) closed or reset the connection
    eof: Arc<AtomicBool>,
}

fn connect_client(id: usize, addr: SocketAddr, behaviour: &'static str, after: usize) -> Option<Client> {
    let stream = TcpStream::connect(addr).ok()?;
    stream.set_read_timeout(Some(Duration::from_millis(20))).ok();
    let buf = Arc::new(Mutex::new(Vec::new()));
    let reading = Arc::new(AtomicBool::new(true));
    let stop = Arc::new(AtomicBool::new(false));
    let eof = Arc::new(AtomicBool::new(false));
    let (b2, r2, st2, eof2) = (buf.clone(), reading.clone(), stop.clone(), eof.clone());
    let mut rs = stream.try_clone().ok()?;
    let reader = std::thread::spawn(move || {
        let mut tmp = [0u8; 65536];
        loop {
            if st2.load(Ordering::SeqCst) {
                return;
            }
            if !r2.load(Ordering::SeqCst) {
                std::thread::sleep(Duration::from_millis(2));
                continue;
            }
            match rs.read(&mut tmp) {
                Ok(0) => {
                    eof2.store(true, Ordering::SeqCst);
                    return;
                }
                Ok(n) => b2.lock().unwrap().extend_from_slice(&tmp[..n]),
                Err(e) if e.kind() == std::io::ErrorKind::WouldBlock || e.kind() == std::io::ErrorKind::TimedOut => {}
                Err(_) => {
                    eof2.store(true, Ordering::SeqCst);
                    return;
                }
            }
        }
    });
    Some(Client { id, stream: Some(stream), buf, reading, stop, closed_by_us: false, connected_after_burst: after, joined_sent: Vec::new(), reader: Some(reader), behaviour, eof })
}

fn max_seq(buf: &Arc<Mutex<Vec<u8>>>, emitter: &str) -> (i64, usize) {
    let b = buf.lock().unwrap().clone();
    if b.len() > 4_000_000 {
        // large captures are judged once at the end; pacing uses the cheap tail scan below
        return (max_seq_tail(&b, emitter), 1_000_000);
    }
    match deframe(&b) {
        Ok((fr, _)) => {
            let mut m = -1i64;
            for f in &fr {
                if let Frame::Metric { labels, .. } = f {
                    if labels.get("emitter").map(|x| x.as_str()) == Some(emitter) {
                        m = m.max(labels.get("seq").and_then(|x| x.parse().ok()).unwrap_or(-1));
                    }
                }
            }
            (m, fr.len())
        }
        Err(_) => (-2, 0),
    }
}

/// Cheap search for the highest `seq` label of an emitter in the last part of a capture (frames may be torn at the cut).
fn max_seq_tail(b: &[u8], emitter: &str) -> i64 {
    let _ = emitter;
    let tail = &b[b.len().saturating_sub(200_000)..];
    let mut best = -1i64;
    let pat = b"\x0a\x03seq\x12";
    let mut i = 0;
    while i + pat.len() + 1 < tail.len() {
        if &tail[i..i + pat.len()] == pat {
            let l = tail[i + pat.len()] as usize;
            if i + pat.len() + 1 + l <= tail.len() {
                if let Ok(s) = std::str::from_utf8(&tail[i + pat.len() + 1..i + pat.len() + 1 + l]) {
                    if let Ok(v) = s.parse::<i64>() {
                        best = best.max(v);
                    }
                }
            }
        }
        i += 1;
    }
    best
}

pub fn run(a: &Args) -> Option<Report> {
    if a.leg == "events" {
        return Some(run_events(a));
    }
    if a.leg == "vanish" {
        return Some(run_vanish(a));
    }
    if a.leg == "stall" {
        return Some(run_stall(a));
    }
    if a.leg == "wake" {
        return Some(run_wake(a));
    }
    if a.leg != "native" {
        return None;
    }
    rt::quiet_panics();
    let mut rep = Report::new("C11", &a.leg, a.seed);
    let mut r = Rng::new(a.shard_seed());
    let scenarios = a.budget(40, 3000);
    for sc in 0..scenarios {
        let buffer_size: Option<usize> = *r.pick(&[None, Some(1), Some(4), Some(64), Some(1024)]);
        let port = {
            let l = TcpListener::bind("127.0.0.1:0").unwrap();
            l.local_addr().unwrap().port()
        };
        let addr: SocketAddr = format!("127.0.0.1:{}", port).parse().unwrap();
        let rec = match TcpBuilder::new().listen_address(addr).buffer_size(buffer_size).build() {
            Ok(r) => Arc::new(r),
            Err(e) => {
                rep.inconclusive(format!("build failed: {:?}", e));
                continue;
            }
        };
        let bdesc = format!("{:?}", buffer_size);
        // metadata first
        let metas: Vec<(&str, u8, Option<Unit>, &str)> = vec![("m", 0, Some(Unit::Count), "emissions"), ("g_meta", 1, None, "a gauge"), ("h_meta", 2, Some(Unit::Seconds), "")];
        for (n, k, u, d) in &metas {
            match k {
                0 => rec.describe_counter(KeyName::from(n.to_string()), *u, SharedString::from(d.to_string())),
                1 => rec.describe_gauge(KeyName::from(n.to_string()), *u, SharedString::from(d.to_string())),
                _ => rec.describe_histogram(KeyName::from(n.to_string()), *u, SharedString::from(d.to_string())),
            }
            // descriptions travel through the same bounded channel as metrics: pace them within the configured buffer
            if buffer_size.map(|b| b <= 4).unwrap_or(false) {
                std::thread::sleep(Duration::from_millis(4));
            }
        }
        // logical sync: a throw-away client that has received all metadata frames proves the exporter processed them
        let t0 = Instant::now();
        let mut synced = false;
        let mut refused = 0u64;
        while t0.elapsed() < Duration::from_secs(6) && !synced {
            match connect_client(999, addr, "probe", 0) {
                None => {
                    refused += 1;
                    std::thread::sleep(Duration::from_millis(20));
                }
                Some(mut c) => {
                    let t1 = Instant::now();
                    while t1.elapsed() < Duration::from_millis(300) {
                        if max_seq(&c.buf, "none").1 >= metas.len() {
                            synced = true;
                            break;
                        }
                        std::thread::sleep(Duration::from_millis(2));
                    }
                    c.stop.store(true, Ordering::SeqCst);
                    if let Some(s) = c.stream.take() {
                        let _ = s.shutdown(Shutdown::Both);
                    }
                    if let Some(h) = c.reader.take() {
                        let _ = h.join();
                    }
                }
            }
        }
        let mut hcase = mix(sc, buffer_size.map(|x| x as u64 + 1).unwrap_or(0));
        if !synced {
            rep.case(hcase, true);
            if refused > 3 {
                // logical evidence: the listener is gone (connections refused): the exporter is not serving
                rep.violation(
                    format!("C11:exporter-not-serving:buffer_size={}", if buffer_size.is_none() { "None" } else { "Some" }),
                    jo! {"what" => "the exporter does not serve at all for this buffer configuration: its listener refuses connections (transport thread gone)", "buffer_size" => bdesc.clone(), "refused_connections" => refused},
                );
            } else {
                rep.inconclusive(format!("no metadata received within the watchdog (buffer {:?})", buffer_size));
            }
            continue;
        }
        // scenario
        let nclients = 1 + r.usize(4);
        let nemit = 1 + r.usize(3);
        let nbursts = 4 + r.usize(6);
        // keep the total number of emissions in flight per round within half the configured buffer
        let budget = buffer_size.map(|n| (n / 2).max(1)).unwrap_or(60);
        let all_emit = budget >= nemit;
        let burst = if all_emit { (budget / nemit).max(1).min(20) } else { 1 };
        let behaviours: Vec<&'static str> = (0..nclients).map(|i| if i == 0 { "reader" } else { *r.pick(&["reader", "reader", "staller", "closer", "resetter", "late"]) }).collect();
        let mut clients: Vec<Client> = Vec::new();
        let mut half_closed: Vec<usize> = Vec::new();
        for (i, b) in behaviours.iter().enumerate() {
            if *b != "late" {
                if let Some(c) = connect_client(i, addr, b, 0) {
                    // some reading clients finish their sending half right away (they never send anything anyway) and
                    // keep reading: they are accepted, reading clients like any other
                    if *b == "reader" && r.chance(1, 3) {
                        if let Some(s_) = c.stream.as_ref() {
                            let _ = s_.shutdown(Shutdown::Write);
                            half_closed.push(i);
                        }
                    }
                    clients.push(c);
                }
            }
        }
        // wait until every initial client was accepted (received its metadata)
        let t1 = Instant::now();
        while t1.elapsed() < Duration::from_secs(5) && clients.iter().any(|c| max_seq(&c.buf, "none").1 < metas.len()) {
            std::thread::sleep(Duration::from_millis(2));
        }
        let handles: Vec<Vec<metrics::Counter>> = Vec::new();
        let _ = handles;
        let mut sent: Vec<i64> = vec![-1; nemit];
        let act_at: Vec<usize> = (0..nclients).map(|_| 1 + r.usize(nbursts - 1)).collect();
        let mut stalled_out = false;
        let mut trace: Vec<String> = vec![format!("buffer_size={:?} clients={:?} emitters={} bursts={}x{}", buffer_size, behaviours, nemit, nbursts, burst)];
        if !half_closed.is_empty() {
            trace.push(format!("clients {:?} shut down their sending half after connecting and keep reading", half_closed));
        }
        // in half of the scenarios one metric is described again (other unit and text) at the start of a burst: clients
        // accepted in a later burst must be sent the new description, earlier ones the old one
        let redesc_at: Option<usize> = if r.chance(1, 2) { Some(1 + r.usize(nbursts - 1)) } else { None };
        for bi in 0..nbursts {
            if redesc_at == Some(bi) {
                rec.describe_gauge(KeyName::from("g_meta"), Some(Unit::Bytes), SharedString::from("a gauge, described again"));
                trace.push(format!("burst {}: g_meta described again (unit bytes)", bi));
                if buffer_size.map(|b| b <= 4).unwrap_or(false) {
                    std::thread::sleep(Duration::from_millis(4));
                }
            }
            // client actions scheduled for this burst
            for ci in 0..nclients {
                if act_at[ci] != bi {
                    continue;
                }
                match behaviours[ci] {
                    "late" => {
                        if let Some(mut c) = connect_client(ci, addr, "late", bi) {
                            c.joined_sent = sent.clone();
                            trace.push(format!("burst {}: client {} connects", bi, ci));
                            clients.push(c);
                            // accepted once it has its metadata
                            let t = Instant::now();
                            while t.elapsed() < Duration::from_secs(5) && max_seq(&clients.last().unwrap().buf, "none").1 < metas.len() {
                                std::thread::sleep(Duration::from_millis(2));
                            }
                        }
                    }
                    "closer" | "resetter" => {
                        if let Some(c) = clients.iter_mut().find(|c| c.id == ci) {
                            // stop our reader first so that ours is the only descriptor of the socket
                            c.stop.store(true, Ordering::SeqCst);
                            if let Some(h) = c.reader.take() {
                                let _ = h.join();
                            }
                            if let Some(s) = c.stream.take() {
                                if behaviours[ci] == "resetter" {
                                    unsafe {
                                        use std::os::fd::AsRawFd;
                                        let l = libc::linger { l_onoff: 1, l_linger: 0 };
                                        libc::setsockopt(s.as_raw_fd(), libc::SOL_SOCKET, libc::SO_LINGER, &l as *const _ as *const libc::c_void, std::mem::size_of::<libc::linger>() as u32);
                                    }
                                } else {
                                    let _ = s.shutdown(Shutdown::Both);
                                }
                                drop(s);
                                c.closed_by_us = true;
                                trace.push(format!("burst {}: client {} {}", bi, ci, if behaviours[ci] == "resetter" { "resets" } else { "closes" }));
                            }
                        }
                    }
                    "staller" => {
                        if let Some(c) = clients.iter().find(|c| c.id == ci) {
                            c.reading.store(false, Ordering::SeqCst);
                            trace.push(format!("burst {}: client {} stops reading", bi, ci));
                        }
                    }
                    _ => {}
                }
            }
            // stallers resume two bursts later
            for ci in 0..nclients {
                if behaviours[ci] == "staller" && act_at[ci] + 2 == bi {
                    if let Some(c) = clients.iter().find(|c| c.id == ci) {
                        c.reading.store(true, Ordering::SeqCst);
                        trace.push(format!("burst {}: client {} resumes reading", bi, ci));
                    }
                }
            }
            // emit one burst per emitter from its own thread
            let mut ths = Vec::new();
            for e in 0..nemit {
                if !all_emit && e != bi % nemit {
                    continue;
                }
                let rec = rec.clone();
                let first = sent[e] + 1;
                ths.push(std::thread::spawn(move || {
                    for k in 0..burst as i64 {
                        let seq = first + k;
                        let key = Key::from_parts("m", vec![Label::new("emitter", e.to_string()), Label::new("seq", seq.to_string()), Label::new("pad", "é=\"x\"")]);
                        match seq % 3 {
                            0 => rec.register_counter(&key, &MD).increment(seq as u64),
                            1 => rec.register_gauge(&key, &MD).set(seq as f64 + 0.5),
                            _ => rec.register_histogram(&key, &MD).record(-(seq as f64)),
                        }
                    }
                }));
                sent[e] += burst as i64;
            }
            for t in ths {
                let _ = t.join();
            }
            // ack-based pacing: every open, reading client must have received this burst before the next one
            let t2 = Instant::now();
            loop {
                let mut pending = false;
                for c in clients.iter().filter(|c| c.stream.is_some() && c.reading.load(Ordering::SeqCst)) {
                    for e in 0..nemit {
                        // only what was emitted after the client was accepted is owed to it
                        let owed = c.joined_sent.get(e).map(|j| sent[e] > *j).unwrap_or(true);
                        if owed && max_seq(&c.buf, &e.to_string()).0 < sent[e] {
                            pending = true;
                        }
                    }
                }
                if !pending {
                    break;
                }
                if t2.elapsed() > Duration::from_secs(8) {
                    stalled_out = true;
                    break;
                }
                std::thread::sleep(Duration::from_millis(2));
            }
            // state invariant at this quiescent point
            let open = clients.iter().filter(|c| c.stream.is_some()).count();
            let (count, should_send) = rec.verif_state();
            if count > (1 << 40) || count < open || (open > 0 && !should_send) {
                rep.violation(
                    if count > (1 << 40) { "C11:client-count-wrapped" } else if count < open { "C11:client-count-below-open-clients" } else { "C11:should-send-false-with-open-client" },
                    jo! {"what" => "the exporter's client accounting is wrong while harness clients are connected and accepted", "client_count" => format!("{}", count), "should_send" => should_send, "open_accepted_clients" => open, "buffer_size" => bdesc.clone(), "trace" => J::A(trace.iter().map(|x| J::s(x.clone())).collect())},
                );
                stalled_out = false;
                break;
            }
            if stalled_out {
                break;
            }
        }
        // a probe client connecting after everything above was acknowledged is sent the latest description of every metric
        if redesc_at.is_some() && !stalled_out {
            if let Some(mut pc) = connect_client(99, addr, "reader", nbursts) {
                let t = Instant::now();
                while t.elapsed() < Duration::from_secs(3) && max_seq(&pc.buf, "none").1 < metas.len() {
                    std::thread::sleep(Duration::from_millis(2));
                }
                pc.stop.store(true, Ordering::SeqCst);
                if let Some(s_) = pc.stream.take() {
                    let _ = s_.shutdown(Shutdown::Both);
                }
                if let Some(h) = pc.reader.take() {
                    let _ = h.join();
                }
                let b = pc.buf.lock().unwrap().clone();
                if let Ok((frames, _)) = deframe(&b) {
                    let g = frames.iter().find_map(|f| if let Frame::Metadata { name, unit, desc, .. } = f { if name == "g_meta" { Some((unit.clone(), desc.clone())) } else { None } } else { None });
                    let want = (Some(Unit::Bytes.as_str().to_string()), Some("a gauge, described again".to_string()));
                    if let Some(got) = g {
                        if got != want {
                            rep.violation("C11:metadata-not-first-or-incomplete:stale-after-redescribe", jo! {"what" => "a client connecting after a metric had been described again (and later emissions had been acknowledged) was sent the earlier unit/description", "got" => format!("{:?}", got), "expected" => format!("{:?}", want), "buffer_size" => bdesc.clone(), "trace" => J::A(trace.iter().map(|x| J::s(x.clone())).collect())});
                        }
                    }
                }
            }
        }
        // tear down and judge every client's captured stream
        for c in clients.iter_mut() {
            c.reading.store(true, Ordering::SeqCst);
        }
        std::thread::sleep(Duration::from_millis(30));
        let mut gap_evidence = false;
        for c in clients.iter_mut() {
            c.stop.store(true, Ordering::SeqCst);
            if let Some(s) = c.stream.take() {
                let _ = s.shutdown(Shutdown::Both);
            }
            if let Some(h) = c.reader.take() {
                let _ = h.join();
            }
            let b = c.buf.lock().unwrap().clone();
            hcase = mix(hcase, b.len() as u64);
            let cdesc = jo! {"client" => c.id, "behaviour" => c.behaviour, "buffer_size" => bdesc.clone(), "bytes" => b.len(), "trace" => J::A(trace.iter().map(|x| J::s(x.clone())).collect())};
            let (frames, trailing) = match deframe(&b) {
                Ok(x) => x,
                Err(e) => {
                    rep.violation("C11:torn-or-corrupt-frame", jo! {"what" => "a client's byte stream is not a concatenation of whole Event frames", "error" => e, "client" => cdesc.clone()});
                    continue;
                }
            };
            if trailing > 0 && !c.closed_by_us {
                // we shut the connection down ourselves at the end, so a trailing partial frame is only acceptable then
            }
            // metadata first, complete, unaltered
            let nmeta = frames.iter().take_while(|f| matches!(f, Frame::Metadata { .. })).count();
            let later_meta = frames.iter().skip(nmeta).any(|f| matches!(f, Frame::Metadata { .. }));
            let mut exp_meta: Vec<(String, u64, Option<String>, Option<String>)> = metas.iter().map(|(n, k, u, d)| (n.to_string(), *k as u64, u.map(|x| x.as_str().to_string()), Some(d.to_string()))).collect();
            let mut got_meta: Vec<(String, u64, Option<String>, Option<String>)> = frames.iter().take(nmeta).filter_map(|f| if let Frame::Metadata { name, ty, unit, desc } = f { Some((name.clone(), *ty, unit.clone(), desc.clone())) } else { None }).collect();
            // which description of g_meta was the known one when this client connected
            let mut exp_alt: Option<Vec<(String, u64, Option<String>, Option<String>)>> = None;
            if let Some(rb) = redesc_at {
                let newer: Vec<(String, u64, Option<String>, Option<String>)> = exp_meta.iter().map(|e| if e.0 == "g_meta" { (e.0.clone(), e.1, Some(Unit::Bytes.as_str().to_string()), Some("a gauge, described again".to_string())) } else { e.clone() }).collect();
                if c.behaviour == "late" && c.connected_after_burst > rb {
                    exp_meta = newer;
                } else if c.behaviour == "late" && c.connected_after_burst == rb {
                    exp_alt = Some(newer); // connected while the description was on its way: either is right
                }
            }
            exp_meta.sort();
            got_meta.sort();
            if let Some(alt) = exp_alt.as_mut() {
                alt.sort();
                if got_meta == *alt {
                    exp_meta = alt.clone();
                }
            }
            let stalled_client = c.behaviour == "staller";
            if (got_meta != exp_meta || later_meta) && !stalled_client && !frames.is_empty() {
                rep.violation("C11:metadata-not-first-or-incomplete", jo! {"what" => "a client did not receive first exactly the metadata known when it connected", "got" => format!("{:?}", got_meta), "expected" => format!("{:?}", exp_meta), "metadata_after_metrics" => later_meta, "client" => cdesc.clone()});
            }
            // metrics: intact, per-emitter order, no duplicates; readers: no gaps
            let mut last: HashMap<String, i64> = HashMap::new();
            let mut first_seen: HashMap<String, i64> = HashMap::new();
            for f in &frames {
                if let Frame::Metric { name, labels, op, bits } = f {
                    let e = labels.get("emitter").cloned().unwrap_or_default();
                    let seq: i64 = labels.get("seq").and_then(|x| x.parse().ok()).unwrap_or(-1);
                    let (eop, ebits) = match seq % 3 {
                        0 => (4u32, seq as u64),
                        1 => (8u32, (seq as f64 + 0.5).to_bits()),
                        _ => (9u32, (-(seq as f64)).to_bits()),
                    };
                    if name != "m" || labels.get("pad").map(|x| x.as_str()) != Some("é=\"x\"") || labels.len() != 3 || *op != eop || *bits != ebits {
                        rep.violation("C11:frame-content-altered", jo! {"what" => "a metric frame's name/labels/operation/value differ from what was emitted", "frame" => format!("{:?}", f), "client" => cdesc.clone()});
                        break;
                    }
                    let prev = last.get(&e).cloned();
                    if let Some(p) = prev {
                        if seq == p {
                            rep.violation("C11:duplicated-frame", jo! {"what" => "a metric frame was delivered twice to one client", "emitter" => e.clone(), "seq" => seq, "client" => cdesc.clone()});
                            break;
                        }
                        if seq < p {
                            rep.violation("C11:emission-order-violated", jo! {"what" => "frames of one emitting thread arrived out of emission order", "emitter" => e.clone(), "seq" => seq, "after" => p, "client" => cdesc.clone()});
                            break;
                        }
                        if seq > p + 1 && c.behaviour != "staller" {
                            // logical evidence of non-delivery: a later sequence number arrived while an earlier one did not
                            gap_evidence = true;
                            rep.violation("C11:gap-in-reading-client-stream", jo! {"what" => "a reading client paced within the buffer missed frames (a later sequence number arrived, an earlier one never did)", "emitter" => e.clone(), "missing_from" => p + 1, "next_received" => seq, "client" => cdesc.clone()});
                            break;
                        }
                    } else {
                        first_seen.insert(e.clone(), seq);
                    }
                    last.insert(e, seq);
                }
            }
            let _ = first_seen;
        }
        if stalled_out && !gap_evidence {
            let state = rec.verif_state();
            rep.inconclusive(format!("a burst was not acknowledged within the watchdog, without logical evidence of loss: state={:?} trace={:?} received={:?} sent={:?}", state, trace, clients.iter().map(|c| (c.id, c.behaviour, (0..nemit).map(|e| max_seq(&c.buf, &e.to_string()).0).collect::<Vec<_>>())).collect::<Vec<_>>(), sent));
        }
        rep.case(hcase, nclients >= 2);
        if rep.want_sample() && nclients >= 2 {
            rep.sample(jo! {"scenario" => J::A(trace.iter().map(|x| J::s(x.clone())).collect()), "frames_per_client" => J::A(clients.iter().map(|c| J::U(deframe(&c.buf.lock().unwrap()).map(|x| x.0.len()).unwrap_or(0) as u64)).collect())});
        }
        drop(rec);
    }
    Some(rep)
}

/// A client that stops reading while megabytes are sent to it (its socket buffers fill, writes become partial and
/// then block), then resumes: whatever it receives must still be whole frames; a second client that keeps reading
/// must receive everything.
fn run_stall(a: &Args) -> Report {
    let mut rep = Report::new("C11", &a.leg, a.seed);
    rt::quiet_panics();
    let mut r = Rng::new(a.shard_seed());
    let scenarios = a.budget(6, 300);
    for sc in 0..scenarios {
        // the first two scenarios of every shard are fixed classes (small buffer with bursts of exactly the buffer; no
        // limit with thousands of small frames), the rest are drawn
        let mut buffer_size: Option<usize> = *r.pick(&[None, None, Some(4), Some(8), Some(64), Some(1024)]);
        if sc == 0 {
            buffer_size = Some(*r.pick(&[4usize, 8]));
        } else if sc == 1 {
            buffer_size = None;
        }
        let port = {
            let l = TcpListener::bind("127.0.0.1:0").unwrap();
            l.local_addr().unwrap().port()
        };
        let addr: SocketAddr = format!("127.0.0.1:{}", port).parse().unwrap();
        let rec = match TcpBuilder::new().listen_address(addr).buffer_size(buffer_size).build() {
            Ok(r) => Arc::new(r),
            Err(e) => {
                rep.inconclusive(format!("build failed: {:?}", e));
                continue;
            }
        };
        rec.describe_counter(KeyName::from("m"), None, SharedString::from("x"));
        std::thread::sleep(Duration::from_millis(20));
        let reader = connect_client(0, addr, "reader", 0);
        let staller = connect_client(1, addr, "heavy-staller", 0);
        let (mut reader, mut staller) = match (reader, staller) {
            (Some(a1), Some(b1)) => (a1, b1),
            _ => {
                rep.inconclusive("could not connect");
                continue;
            }
        };
        let t = Instant::now();
        while t.elapsed() < Duration::from_secs(5) && (max_seq(&reader.buf, "0").1 < 1 || max_seq(&staller.buf, "0").1 < 1) {
            std::thread::sleep(Duration::from_millis(2));
        }
        staller.reading.store(false, Ordering::SeqCst);
        std::thread::sleep(Duration::from_millis(10));
        // emit frames with a large label so that the stalled client's socket fills quickly
        // with no buffer limit also many small frames: the stalled client falls thousands of frames behind and must
        // still be sent every one of them once it reads again
        let pad_len = if buffer_size.is_none() && (sc == 1 || r.chance(1, 2)) { 1usize << 10 } else { *r.pick(&[16usize << 10, 64 << 10, 300 << 10]) };
        let pad: String = std::iter::repeat('p').take(pad_len).collect();
        let total = ((12usize << 20) / pad_len).max(30).min(if pad_len <= 1024 { 14_000 } else { 600 }) as i64;
        // bursts of half the buffer, or (small buffers) of exactly the buffer: the channel is empty when a burst starts
        let full_bursts = matches!(buffer_size, Some(b) if b <= 64) && (sc == 0 || r.chance(1, 2));
        let per_round = if full_bursts { buffer_size.unwrap() as i64 } else { buffer_size.map(|b| (b / 2).max(1)).unwrap_or(30).min(30) as i64 };
        let mut sent = -1i64;
        let mut stalled_out = false;
        while sent + 1 < total {
            let n = per_round.min(total - 1 - sent);
            for k in 0..n {
                let seq = sent + 1 + k;
                let key = Key::from_parts("m", vec![Label::new("emitter", "0"), Label::new("seq", seq.to_string()), Label::new("pad", pad.clone())]);
                rec.register_counter(&key, &MD).increment(seq as u64);
            }
            sent += n;
            let t2 = Instant::now();
            while max_seq(&reader.buf, "0").0 < sent {
                if t2.elapsed() > Duration::from_secs(10) || reader.eof.load(Ordering::SeqCst) {
                    stalled_out = true;
                    break;
                }
                std::thread::sleep(Duration::from_millis(1));
            }
            if stalled_out {
                break;
            }
        }
        // the stalled client resumes; a few small frames flush whatever is pending for it
        staller.reading.store(true, Ordering::SeqCst);
        for k in 0..5 {
            let key = Key::from_parts("m", vec![Label::new("emitter", "0"), Label::new("seq", (total + k).to_string()), Label::new("pad", "tail")]);
            rec.register_counter(&key, &MD).increment(1);
            std::thread::sleep(Duration::from_millis(30));
        }
        std::thread::sleep(Duration::from_millis(200));
        let desc = jo! {"buffer_size" => format!("{:?}", buffer_size), "label_bytes" => pad_len, "frames_sent_while_stalled" => total, "burst" => per_round};
        // the exporter must never hang up on a client (nobody here closed a connection yet)
        if reader.eof.load(Ordering::SeqCst) || staller.eof.load(Ordering::SeqCst) {
            rep.violation("C11:exporter-disconnected-client", jo! {"what" => "the exporter closed or reset the connection of a client that had not gone away (transport thread gone?)", "reading_client_disconnected" => reader.eof.load(Ordering::SeqCst), "stalled_client_disconnected" => staller.eof.load(Ordering::SeqCst), "scenario" => desc.clone()});
        }
        // no buffer limit: the client that stalled owes nothing to a discard policy; once it reads again it must be sent
        // every frame (bounded wait for it to catch up; not catching up is inconclusive, a gap followed by later frames is not)
        let mut staller_caught_up = true;
        if buffer_size.is_none() && !stalled_out {
            let t3 = Instant::now();
            while max_seq(&staller.buf, "0").0 < total + 4 {
                if t3.elapsed() > Duration::from_secs(20) || staller.eof.load(Ordering::SeqCst) {
                    staller_caught_up = false;
                    break;
                }
                std::thread::sleep(Duration::from_millis(5));
            }
        }
        let mut hcase = mix(sc, pad_len as u64);
        for c in [&mut reader, &mut staller] {
            c.stop.store(true, Ordering::SeqCst);
            if let Some(s) = c.stream.take() {
                let _ = s.shutdown(Shutdown::Both);
            }
            if let Some(h) = c.reader.take() {
                let _ = h.join();
            }
            let b = c.buf.lock().unwrap().clone();
            hcase = mix(hcase, b.len() as u64);
            match deframe(&b) {
                Err(e) => {
                    rep.violation(
                        if c.behaviour == "heavy-staller" { "C11:torn-or-corrupt-frame:client-stalled-with-full-socket" } else { "C11:torn-or-corrupt-frame" },
                        jo! {"what" => "a client's byte stream is not a concatenation of whole Event frames", "error" => e, "client" => c.behaviour, "bytes_received" => b.len(), "scenario" => desc.clone()},
                    );
                }
                Ok((frames, _trailing)) => {
                    let mut last = -1i64;
                    for f in &frames {
                        if let Frame::Metric { labels, bits, op, .. } = f {
                            let seq: i64 = labels.get("seq").and_then(|x| x.parse().ok()).unwrap_or(-1);
                            let pad_ok = labels.get("pad").map(|p| p.len() == pad_len || p == "tail").unwrap_or(false);
                            if !pad_ok || *op != 4 || (seq < total && *bits != seq as u64) {
                                rep.violation("C11:frame-content-altered", jo! {"what" => "a frame's content differs from what was emitted", "seq" => seq, "client" => c.behaviour, "scenario" => desc.clone()});
                                break;
                            }
                            if seq <= last {
                                rep.violation(if seq == last { "C11:duplicated-frame" } else { "C11:emission-order-violated" }, jo! {"what" => "duplicate or out-of-order frame", "seq" => seq, "after" => last, "client" => c.behaviour, "scenario" => desc.clone()});
                                break;
                            }
                            if c.behaviour == "heavy-staller" && buffer_size.is_none() && seq != last + 1 {
                                rep.violation("C11:gap-in-stream-of-resumed-client:no-buffer-limit", jo! {"what" => "with buffer_size(None) a client that stopped reading and resumed was not sent every frame: older frames were discarded although no limit is configured", "missing_from" => last + 1, "next_received" => seq, "scenario" => desc.clone()});
                                break;
                            }
                            if c.behaviour == "reader" && seq != last + 1 && !stalled_out {
                                rep.violation("C11:gap-in-reading-client-stream", jo! {"what" => "the reading client missed frames while another client was stalled", "missing_from" => last + 1, "next_received" => seq, "scenario" => desc.clone()});
                                break;
                            }
                            last = seq;
                        }
                    }
                    rep.count(&format!("frames_received:{}", c.behaviour), frames.len() as u64);
                }
            }
        }
        if stalled_out && !reader.eof.load(Ordering::SeqCst) {
            rep.inconclusive("reading client did not acknowledge within the watchdog");
        }
        if !staller_caught_up {
            rep.inconclusive("resumed client did not catch up within the watchdog");
        }
        rep.case(hcase, true);
        if rep.want_sample() {
            rep.sample(jo! {"scenario" => desc, "reader_bytes" => reader.buf.lock().unwrap().len(), "stalled_client_bytes" => staller.buf.lock().unwrap().len()});
        }
    }
    rep
}

/// Streaming reader for the vanish leg: deframes and decodes as bytes arrive, keeps only the per-stream verdict
/// (first / last sequence number, first gap, first decoding error) instead of the capture.
#[derive(Default, Clone, Debug)]
struct SeqStream {
    first: i64,
    last: i64,
    frames: u64,
    gap: Option<(i64, i64)>,
    backwards: Option<(i64, i64)>,
    error: Option<String>,
}

fn spawn_seq_reader(addr: SocketAddr, stop: Arc<AtomicBool>) -> Option<(Arc<Mutex<SeqStream>>, std::thread::JoinHandle<()>)> {
    let mut stream = TcpStream::connect(addr).ok()?;
    stream.set_read_timeout(Some(Duration::from_millis(20))).ok();
    let st = Arc::new(Mutex::new(SeqStream { first: -1, last: -1, ..Default::default() }));
    let st2 = st.clone();
    let h = std::thread::spawn(move || {
        let mut pend: Vec<u8> = Vec::new();
        let mut tmp = vec![0u8; 1 << 16];
        loop {
            if stop.load(Ordering::SeqCst) {
                return;
            }
            match stream.read(&mut tmp) {
                Ok(0) => return,
                Ok(n) => pend.extend_from_slice(&tmp[..n]),
                Err(e) if e.kind() == std::io::ErrorKind::WouldBlock || e.kind() == std::io::ErrorKind::TimedOut => continue,
                Err(_) => return,
            }
            let mut off = 0usize;
            loop {
                let mut j = off;
                let n = match varint(&pend, &mut j) {
                    Some(n) if j + n as usize <= pend.len() => n as usize,
                    _ => break,
                };
                let body = &pend[j..j + n];
                let mut g = st2.lock().unwrap();
                match decode_event(body) {
                    Err(e) => {
                        if g.error.is_none() {
                            g.error = Some(e);
                        }
                    }
                    Ok(Frame::Metric { labels, .. }) => {
                        let seq: i64 = labels.get("seq").and_then(|x| x.parse().ok()).unwrap_or(-1);
                        g.frames += 1;
                        if g.first < 0 {
                            g.first = seq;
                        } else if seq <= g.last {
                            if g.backwards.is_none() {
                                g.backwards = Some((g.last, seq));
                            }
                        } else if seq != g.last + 1 && g.gap.is_none() {
                            g.gap = Some((g.last + 1, seq));
                        }
                        g.last = seq;
                    }
                    Ok(_) => {}
                }
                drop(g);
                off = j + n;
            }
            pend.drain(..off);
        }
    });
    Some((st, h))
}

/// A client that has let a backlog build up in the exporter (it stopped reading until its socket filled) goes away
/// with a reset while metrics keep flowing: the clients that are reading must still receive every metric.
/// `buffer_size(None)`, so nothing may be discarded on the way to the transport.
fn run_vanish(a: &Args) -> Report {
    let mut rep = Report::new("C11", &a.leg, a.seed);
    rt::quiet_panics();
    let mut r = Rng::new(a.shard_seed());
    let scenarios = a.budget(2, 40);
    for sc in 0..scenarios {
        let port = {
            let l = TcpListener::bind("127.0.0.1:0").unwrap();
            l.local_addr().unwrap().port()
        };
        let addr: SocketAddr = format!("127.0.0.1:{}", port).parse().unwrap();
        let rec = match TcpBuilder::new().listen_address(addr).buffer_size(None).build() {
            Ok(r) => Arc::new(r),
            Err(e) => {
                rep.inconclusive(format!("build failed: {:?}", e));
                continue;
            }
        };
        rec.describe_counter(KeyName::from("m"), None, SharedString::from("x"));
        std::thread::sleep(Duration::from_millis(20));
        let nreaders = 3 + r.usize(3);
        let stop = Arc::new(AtomicBool::new(false));
        let mut readers = Vec::new();
        for _ in 0..nreaders {
            match spawn_seq_reader(addr, stop.clone()) {
                Some(x) => readers.push(x),
                None => rep.inconclusive("could not connect"),
            }
        }
        if readers.len() != nreaders {
            stop.store(true, Ordering::SeqCst);
            continue;
        }
        std::thread::sleep(Duration::from_millis(50));
        let (pad_len, gap_us) = *r.pick(&[(2usize << 10, 50u64), (8 << 10, 200), (32 << 10, 800), (8 << 10, 400)]);
        let emitted = Arc::new(std::sync::atomic::AtomicI64::new(-1));
        let emit_stop = Arc::new(AtomicBool::new(false));
        let emitter = {
            let (rec, emitted, emit_stop) = (rec.clone(), emitted.clone(), emit_stop.clone());
            std::thread::spawn(move || {
                let pad: String = std::iter::repeat('p').take(pad_len).collect();
                let mut seq = 0i64;
                while !emit_stop.load(Ordering::SeqCst) {
                    let key = Key::from_parts("m", vec![Label::new("emitter", "0"), Label::new("seq", seq.to_string()), Label::new("pad", pad.clone())]);
                    rec.register_counter(&key, &MD).increment(seq as u64);
                    emitted.store(seq, Ordering::SeqCst);
                    seq += 1;
                    let t = Instant::now();
                    while t.elapsed() < Duration::from_micros(gap_us) {
                        std::hint::spin_loop();
                    }
                }
            })
        };
        let rounds = if a.thorough() { 40 } else { 10 };
        let mut vanished = 0u64;
        for _ in 0..rounds {
            // transient client: connect, read until the metadata and a few metrics arrived, stop reading, vanish
            let mut tc = match TcpStream::connect(addr) {
                Ok(s) => s,
                Err(_) => continue,
            };
            tc.set_read_timeout(Some(Duration::from_millis(50))).ok();
            unsafe {
                use std::os::fd::AsRawFd;
                let sz: libc::c_int = 4096;
                libc::setsockopt(tc.as_raw_fd(), libc::SOL_SOCKET, libc::SO_RCVBUF, &sz as *const _ as *const libc::c_void, std::mem::size_of::<libc::c_int>() as u32);
            }
            let mut tmp = [0u8; 4096];
            let _ = tc.read(&mut tmp);
            let stall_ms = *r.pick(&[100u64, 200, 300]);
            std::thread::sleep(Duration::from_millis(stall_ms));
            unsafe {
                use std::os::fd::AsRawFd;
                let l = libc::linger { l_onoff: 1, l_linger: 0 };
                libc::setsockopt(tc.as_raw_fd(), libc::SOL_SOCKET, libc::SO_LINGER, &l as *const _ as *const libc::c_void, std::mem::size_of::<libc::linger>() as u32);
            }
            drop(tc);
            vanished += 1;
            std::thread::sleep(Duration::from_millis(20));
        }
        emit_stop.store(true, Ordering::SeqCst);
        let _ = emitter.join();
        let total = emitted.load(Ordering::SeqCst);
        // bounded progress: the readers catch up with everything that was emitted
        let t = Instant::now();
        let mut caught_up = false;
        while t.elapsed() < Duration::from_secs(20) {
            if readers.iter().all(|(st, _)| st.lock().unwrap().last >= total) {
                caught_up = true;
                break;
            }
            std::thread::sleep(Duration::from_millis(5));
        }
        stop.store(true, Ordering::SeqCst);
        let desc = jo! {"readers" => nreaders, "label_bytes" => pad_len, "emission_gap_us" => gap_us, "metrics_emitted" => total + 1, "backed_up_clients_reset" => vanished};
        let mut hcase = mix(sc, total as u64);
        for (i, (st, h)) in readers.into_iter().enumerate() {
            let _ = h.join();
            let g = st.lock().unwrap().clone();
            hcase = mix(hcase, g.frames);
            if let Some(e) = &g.error {
                rep.violation("C11:torn-or-corrupt-frame", jo! {"what" => "a reading client's stream stopped being whole Event frames while a backed-up peer was reset", "error" => e.clone(), "reader" => i, "scenario" => desc.clone()});
            } else if let Some((exp, got)) = g.gap {
                rep.violation("C11:gap-in-reading-client-stream:backed-up-peer-reset", jo! {"what" => "a client that was reading all along missed metrics (later ones arrived) after another client, for which the exporter held a backlog, was reset", "reader" => i, "expected_seq" => exp, "next_received" => got, "scenario" => desc.clone()});
            } else if let Some((last, got)) = g.backwards {
                rep.violation("C11:emission-order-violated", jo! {"what" => "sequence went backwards or repeated", "reader" => i, "after" => last, "got" => got, "scenario" => desc.clone()});
            }
            rep.count("frames_received:reader", g.frames);
        }
        if !caught_up {
            rep.inconclusive("readers did not catch up with the emitter within 20 s");
        }
        rep.count("backed_up_clients_reset", vanished);
        rep.case(hcase, vanished > 0 && total > 100);
        if rep.want_sample() {
            rep.sample(jo! {"vanish" => true, "scenario" => desc});
        }
    }
    rep
}

/// Count whole frames in a capture incrementally (skips by the varint length prefix, no decoding).
struct FrameCounter {
    off: usize,
    count: usize,
}
impl FrameCounter {
    fn advance(&mut self, buf: &Arc<Mutex<Vec<u8>>>) -> usize {
        let b = buf.lock().unwrap();
        loop {
            let mut j = self.off;
            match varint(&b, &mut j) {
                Some(n) if j + n as usize <= b.len() => {
                    self.off = j + n as usize;
                    self.count += 1;
                }
                _ => break,
            }
        }
        self.count
    }
}

/// More described metrics than the per-client buffer holds, metrics flowing all the time, clients joining: every new
/// client is first sent all the metadata known when it connected (the frames queued for it at connect time are not
/// "older messages of a slow client").
fn many_metadata(rep: &mut Report, r: &mut Rng) {
    let port = {
        let l = TcpListener::bind("127.0.0.1:0").unwrap();
        l.local_addr().unwrap().port()
    };
    let addr: SocketAddr = format!("127.0.0.1:{}", port).parse().unwrap();
    let buf = *r.pick(&[4usize, 8]);
    let rec = match TcpBuilder::new().listen_address(addr).buffer_size(Some(buf)).build() {
        Ok(r) => Arc::new(r),
        Err(e) => {
            rep.inconclusive(format!("build failed: {:?}", e));
            return;
        }
    };
    std::thread::sleep(Duration::from_millis(20));
    let nmeta = 40usize;
    for i in 0..nmeta {
        rec.describe_counter(KeyName::from(format!("m{:02}", i)), None, SharedString::from("d"));
        std::thread::sleep(Duration::from_millis(2)); // descriptions share the bounded channel
    }
    let mut base = match connect_client(0, addr, "reader", 0) {
        Some(c) => c,
        None => {
            rep.inconclusive("could not connect");
            return;
        }
    };
    let mut fc = FrameCounter { off: 0, count: 0 };
    let t = Instant::now();
    while t.elapsed() < Duration::from_secs(5) && fc.advance(&base.buf) < nmeta {
        std::thread::sleep(Duration::from_millis(1));
    }
    if fc.count < nmeta {
        rep.inconclusive("the first client did not receive all descriptions (some were refused by the bounded channel)");
    }
    let known = fc.count; // what the exporter knows (the first client, connected to an idle exporter, was sent it all)
    // emitter paced by the base client's acknowledgements: at most two metrics in flight
    let stop = Arc::new(AtomicBool::new(false));
    let acked = Arc::new(std::sync::atomic::AtomicUsize::new(known));
    let emitter = {
        let (rec, stop, acked) = (rec.clone(), stop.clone(), acked.clone());
        std::thread::spawn(move || {
            let mut sent = 0usize;
            while !stop.load(Ordering::SeqCst) {
                if sent + known < acked.load(Ordering::SeqCst) + 2 {
                    let key = Key::from_parts("m00", vec![Label::new("emitter", "0"), Label::new("seq", sent.to_string())]);
                    rec.register_counter(&key, &MD).increment(1);
                    sent += 1;
                } else {
                    std::thread::yield_now();
                }
            }
        })
    };
    let mut bad: Option<J> = None;
    let mut joined = 0u64;
    for ci in 0..10usize {
        acked.store(fc.advance(&base.buf), Ordering::SeqCst);
        let mut c = match connect_client(20 + ci, addr, "reader", 0) {
            Some(c) => c,
            None => continue,
        };
        let mut cfc = FrameCounter { off: 0, count: 0 };
        let t2 = Instant::now();
        while t2.elapsed() < Duration::from_secs(3) && cfc.advance(&c.buf) < known + 3 {
            acked.store(fc.advance(&base.buf), Ordering::SeqCst);
            std::thread::sleep(Duration::from_millis(1));
        }
        c.stop.store(true, Ordering::SeqCst);
        if let Some(s_) = c.stream.take() {
            let _ = s_.shutdown(Shutdown::Both);
        }
        if let Some(h) = c.reader.take() {
            let _ = h.join();
        }
        let b = c.buf.lock().unwrap().clone();
        if let Ok((frames, _)) = deframe(&b) {
            let lead = frames.iter().take_while(|f| matches!(f, Frame::Metadata { .. })).count();
            let has_metric = frames.iter().any(|f| matches!(f, Frame::Metric { .. }));
            joined += 1;
            if has_metric && lead < known && bad.is_none() {
                bad = Some(jo! {"what" => "a client that connected while metrics were flowing was sent metrics before (or instead of) part of the metadata known when it connected", "metadata_frames_first" => lead, "metadata_known" => known, "frames_received" => frames.len(), "buffer_size" => format!("Some({})", buf), "client_index" => ci});
            }
        }
    }
    stop.store(true, Ordering::SeqCst);
    let _ = emitter.join();
    base.stop.store(true, Ordering::SeqCst);
    if let Some(s_) = base.stream.take() {
        let _ = s_.shutdown(Shutdown::Both);
    }
    if let Some(h) = base.reader.take() {
        let _ = h.join();
    }
    rep.count("clients_joined_with_many_descriptions", joined);
    rep.case(mix(buf as u64, known as u64 + 4000), true);
    if let Some(d) = bad {
        rep.violation("C11:metadata-not-first-or-incomplete:more-descriptions-than-buffer", d);
    }
}

/// Wake-ups that carry no metric (describe calls) arriving back to back while (a) a client with a parked backlog starts
/// reading again and (b) new clients connect. Socket readiness is edge-triggered, so an event the transport drops is not
/// reported again: bounded progress with a discriminator — if nothing moves for 3 s and everything arrives right after
/// one unrelated emission / connection, the event had been lost.
fn run_events(a: &Args) -> Report {
    let mut rep = Report::new("C11", &a.leg, a.seed);
    rt::quiet_panics();
    let mut r = Rng::new(a.shard_seed());
    let scenarios = a.budget(2, 40);
    for sc in 0..scenarios {
        many_metadata(&mut rep, &mut r);
        let port = {
            let l = TcpListener::bind("127.0.0.1:0").unwrap();
            l.local_addr().unwrap().port()
        };
        let addr: SocketAddr = format!("127.0.0.1:{}", port).parse().unwrap();
        let rec = match TcpBuilder::new().listen_address(addr).buffer_size(Some(65536)).build() {
            Ok(r) => Arc::new(r),
            Err(e) => {
                rep.inconclusive(format!("build failed: {:?}", e));
                continue;
            }
        };
        rec.describe_counter(KeyName::from("m"), None, SharedString::from("x"));
        std::thread::sleep(Duration::from_millis(20));
        let mut slow = match connect_client(0, addr, "heavy-staller", 0) {
            Some(c) => c,
            None => {
                rep.inconclusive("could not connect");
                continue;
            }
        };
        let mut fc = FrameCounter { off: 0, count: 0 };
        let t = Instant::now();
        while t.elapsed() < Duration::from_secs(5) && fc.advance(&slow.buf) < 1 {
            std::thread::sleep(Duration::from_millis(1));
        }
        slow.reading.store(false, Ordering::SeqCst);
        std::thread::sleep(Duration::from_millis(10));
        let n = *r.pick(&[8_000usize, 20_000]);
        let pad: String = std::iter::repeat('p').take(1000).collect();
        for seq in 0..n {
            let key = Key::from_parts("m", vec![Label::new("emitter", "0"), Label::new("seq", seq.to_string()), Label::new("pad", pad.clone())]);
            rec.register_counter(&key, &MD).increment(seq as u64);
        }
        std::thread::sleep(Duration::from_millis(150));
        // back-to-back empty wake-ups from now on
        let noise_stop = Arc::new(AtomicBool::new(false));
        let noise = {
            let (rec, noise_stop) = (rec.clone(), noise_stop.clone());
            std::thread::spawn(move || {
                let mut k = 0u64;
                while !noise_stop.load(Ordering::SeqCst) {
                    rec.describe_gauge(KeyName::from("noise"), None, SharedString::from("wake-up without a metric"));
                    k += 1;
                    if k % 64 == 0 {
                        std::thread::yield_now();
                    }
                }
            })
        };
        // (a) the slow client reads again: its parked backlog must be driven out without any further emission
        slow.reading.store(true, Ordering::SeqCst);
        let expected = 1 + n; // metadata + metrics (65536 >= n: nothing may be discarded for it)
        let mut last_progress = (fc.advance(&slow.buf), Instant::now());
        let mut stuck = false;
        let t2 = Instant::now();
        while fc.advance(&slow.buf) < expected {
            if fc.count != last_progress.0 {
                last_progress = (fc.count, Instant::now());
            }
            if last_progress.1.elapsed() > Duration::from_secs(3) {
                stuck = true;
                break;
            }
            if t2.elapsed() > Duration::from_secs(60) {
                break;
            }
            std::thread::sleep(Duration::from_millis(2));
        }
        let desc = jo! {"metrics_parked_for_the_slow_client" => n, "buffer_size" => "Some(65536)", "frames_received_before_stall" => fc.count};
        if stuck {
            let before = fc.count;
            noise_stop.store(true, Ordering::SeqCst);
            std::thread::sleep(Duration::from_millis(50));
            // discriminator: one unrelated emission
            rec.register_counter(&Key::from_parts("m", vec![Label::new("emitter", "1"), Label::new("seq", "0"), Label::new("pad", "x")]), &MD).increment(1);
            let t3 = Instant::now();
            while t3.elapsed() < Duration::from_secs(5) && fc.advance(&slow.buf) < expected {
                std::thread::sleep(Duration::from_millis(2));
            }
            if fc.count >= expected {
                rep.violation("C11:parked-backlog-not-driven-until-next-emission", jo! {"what" => "a client that had stopped reading resumed; while only metric-less wake-ups (describe calls) reached the transport its parked backlog stood still for 3 s, and it was delivered right after one unrelated emission: the socket's readiness event had been dropped", "frames_received_when_stuck" => before, "frames_expected" => expected, "scenario" => desc.clone()});
            } else {
                rep.inconclusive("backlog delivery stalled and did not resume after an emission within the watchdog");
            }
        } else if fc.count < expected {
            rep.inconclusive("backlog still arriving after 60 s");
        }
        // (b) new clients connect while the empty wake-ups continue: each must be accepted (sent its metadata)
        let mut served = 0u64;
        if !stuck {
            for ci in 0..6usize {
                let c = match connect_client(10 + ci, addr, "reader", 0) {
                    Some(c) => c,
                    None => continue,
                };
                let mut cfc = FrameCounter { off: 0, count: 0 };
                let t4 = Instant::now();
                while t4.elapsed() < Duration::from_secs(3) && cfc.advance(&c.buf) < 1 {
                    std::thread::sleep(Duration::from_millis(1));
                }
                let mut extra = None;
                if cfc.count < 1 {
                    // discriminator: another connection
                    extra = connect_client(100 + ci, addr, "reader", 0);
                    let t5 = Instant::now();
                    while t5.elapsed() < Duration::from_secs(3) && cfc.advance(&c.buf) < 1 {
                        std::thread::sleep(Duration::from_millis(1));
                    }
                    if cfc.count >= 1 {
                        rep.violation("C11:client-not-accepted-until-another-connected", jo! {"what" => "a connected client was sent nothing for 3 s while metric-less wake-ups kept arriving, and was served right after another client connected: the listener's readiness event had been dropped", "client_index" => ci, "scenario" => desc.clone()});
                    } else {
                        rep.inconclusive("a connected client was not served within the watchdog, also after another connection");
                    }
                } else {
                    served += 1;
                }
                for mut cl in [Some(c), extra].into_iter().flatten() {
                    cl.stop.store(true, Ordering::SeqCst);
                    if let Some(s_) = cl.stream.take() {
                        let _ = s_.shutdown(Shutdown::Both);
                    }
                    if let Some(h) = cl.reader.take() {
                        let _ = h.join();
                    }
                }
            }
        }
        noise_stop.store(true, Ordering::SeqCst);
        let _ = noise.join();
        slow.stop.store(true, Ordering::SeqCst);
        if let Some(s_) = slow.stream.take() {
            let _ = s_.shutdown(Shutdown::Both);
        }
        if let Some(h) = slow.reader.take() {
            let _ = h.join();
        }
        rep.count("clients_accepted_during_empty_wakeups", served);
        rep.count("frames_received:resumed-client", fc.count as u64);
        rep.case(mix(sc, fc.count as u64), true);
        if rep.want_sample() {
            rep.sample(jo! {"empty_wakeups" => true, "scenario" => desc, "frames_received_by_resumed_client" => fc.count, "clients_accepted_meanwhile" => served});
        }
    }
    rep
}

/// Back-to-back emissions from several threads racing the transport's "queue drained, go back to sleep" decision.
/// Bounded progress: once the emitters are quiet the reading client must receive everything; if nothing at all arrives
/// for 3 s and everything then arrives right after an unrelated wake-up (a describe call), the metrics had been sitting
/// in the exporter without anybody waking the transport.
fn run_wake(a: &Args) -> Report {
    let mut rep = Report::new("C11", &a.leg, a.seed);
    rt::quiet_panics();
    let mut r = Rng::new(a.shard_seed());
    let scenarios = a.budget(2, 40);
    for sc in 0..scenarios {
        let buffer_size: Option<usize> = *r.pick(&[None, Some(1024)]);
        let port = {
            let l = TcpListener::bind("127.0.0.1:0").unwrap();
            l.local_addr().unwrap().port()
        };
        let addr: SocketAddr = format!("127.0.0.1:{}", port).parse().unwrap();
        let rec = match TcpBuilder::new().listen_address(addr).buffer_size(buffer_size).build() {
            Ok(r) => Arc::new(r),
            Err(e) => {
                rep.inconclusive(format!("build failed: {:?}", e));
                continue;
            }
        };
        rec.describe_counter(KeyName::from("m"), None, SharedString::from("x"));
        std::thread::sleep(Duration::from_millis(20));
        let mut reader = match connect_client(0, addr, "reader", 0) {
            Some(c) => c,
            None => {
                rep.inconclusive("could not connect");
                continue;
            }
        };
        let mut fc = FrameCounter { off: 0, count: 0 };
        let t = Instant::now();
        while t.elapsed() < Duration::from_secs(5) && fc.advance(&reader.buf) < 1 {
            std::thread::sleep(Duration::from_millis(1));
        }
        let nemit = 2 + r.usize(2);
        let burst = 20usize;
        let rounds = if a.thorough() { 20_000 } else { 5_000 };
        let mut expected = 1usize; // metadata frame
        let mut seqs = vec![0i64; nemit];
        let mut verdict: Option<(&str, J)> = None;
        let barrier = Arc::new(std::sync::Barrier::new(nemit + 1));
        let stop = Arc::new(AtomicBool::new(false));
        let mut ths = Vec::new();
        for e in 0..nemit {
            let (rec, barrier, stop) = (rec.clone(), barrier.clone(), stop.clone());
            ths.push(std::thread::spawn(move || {
                let mut seq = 0i64;
                loop {
                    barrier.wait();
                    if stop.load(Ordering::SeqCst) {
                        return;
                    }
                    for _ in 0..burst {
                        let key = Key::from_parts("m", vec![Label::new("emitter", e.to_string()), Label::new("seq", seq.to_string())]);
                        rec.register_counter(&key, &MD).increment(seq as u64);
                        seq += 1;
                    }
                    barrier.wait();
                }
            }));
        }
        let mut done_rounds = 0;
        for round in 0..rounds {
            barrier.wait(); // start burst
            barrier.wait(); // all emitters quiet
            expected += nemit * burst;
            for s_ in seqs.iter_mut() {
                *s_ += burst as i64;
            }
            done_rounds = round + 1;
            let t2 = Instant::now();
            let mut last_progress = (fc.advance(&reader.buf), Instant::now());
            let mut stuck = false;
            while fc.advance(&reader.buf) < expected {
                let now = fc.count;
                if now != last_progress.0 {
                    last_progress = (now, Instant::now());
                }
                if last_progress.1.elapsed() > Duration::from_secs(3) {
                    stuck = true;
                    break;
                }
                if t2.elapsed() > Duration::from_secs(30) {
                    break;
                }
                std::thread::yield_now();
            }
            if stuck {
                let missing = expected - fc.count;
                // unrelated wake-up
                rec.describe_gauge(KeyName::from("unrelated"), None, SharedString::from("wake"));
                let t3 = Instant::now();
                while t3.elapsed() < Duration::from_secs(2) && fc.advance(&reader.buf) < expected {
                    std::thread::sleep(Duration::from_millis(1));
                }
                if fc.count >= expected {
                    verdict = Some(("C11:delivery-stalled-until-unrelated-wakeup", jo! {"what" => "with the emitters quiet, metrics stayed undelivered to a reading client for 3 s with no progress at all and arrived immediately after an unrelated wake-up (describe call): they were queued in the exporter without the transport being woken", "round" => round, "frames_missing_during_stall" => missing, "buffer_size" => format!("{:?}", buffer_size), "emitters" => nemit}));
                } else {
                    rep.inconclusive("delivery stalled and did not resume after a wake-up within the watchdog");
                }
                break;
            }
            if fc.count < expected {
                rep.inconclusive("round not acknowledged within 30 s although frames kept arriving");
                break;
            }
        }
        stop.store(true, Ordering::SeqCst);
        barrier.wait();
        for t in ths {
            let _ = t.join();
        }
        reader.stop.store(true, Ordering::SeqCst);
        if let Some(s_) = reader.stream.take() {
            let _ = s_.shutdown(Shutdown::Both);
        }
        if let Some(h) = reader.reader.take() {
            let _ = h.join();
        }
        let b = reader.buf.lock().unwrap().clone();
        rep.case(mix(sc, b.len() as u64), true);
        rep.case(mix(sc + 1000, done_rounds as u64), true);
        rep.count("rounds_of_back_to_back_bursts", done_rounds as u64);
        if let Some((sig, d)) = verdict {
            rep.violation(sig, d);
        }
        match deframe(&b) {
            Err(e) => rep.violation("C11:torn-or-corrupt-frame", jo! {"what" => "stream is not whole frames", "error" => e}),
            Ok((frames, _)) => {
                let mut last: HashMap<String, i64> = HashMap::new();
                for f in &frames {
                    if let Frame::Metric { labels, .. } = f {
                        let e = labels.get("emitter").cloned().unwrap_or_default();
                        let seq: i64 = labels.get("seq").and_then(|x| x.parse().ok()).unwrap_or(-1);
                        let p = last.get(&e).cloned().unwrap_or(-1);
                        if seq != p + 1 {
                            rep.violation(if seq <= p { "C11:emission-order-violated" } else { "C11:gap-in-reading-client-stream" }, jo! {"what" => "per-emitter sequence broken for a reading client under back-to-back bursts", "emitter" => e.clone(), "expected" => p + 1, "got" => seq});
                            break;
                        }
                        last.insert(e, seq);
                    }
                }
                rep.count("frames_received", frames.len() as u64);
            }
        }
        if rep.want_sample() {
            rep.sample(jo! {"wake_race" => true, "buffer_size" => format!("{:?}", buffer_size), "emitters" => nemit, "rounds" => done_rounds, "burst" => burst, "bytes" => b.len()});
        }
    }
    rep
}
