//! C20 — a recoverable recorder is live until recovered, inert and dropped once after.
use crate::rt::{self, mix, Args, Ctx, Policy, Report, Rng, Rule, J};
use metrics::{Counter, CounterFn, Gauge, Histogram, Key, KeyName, Level, Metadata, Recorder, SharedString, Unit};
use metrics_util::RecoverableRecorder;
use std::sync::atomic::{AtomicBool, AtomicU64, AtomicUsize, Ordering};
use std::sync::{Arc, Mutex};

/// Shared observation state of one trial.
struct Obs {
    stamp: AtomicU64,
    finalised: AtomicBool,       // set by the harness the moment into_inner returned / by Drop when it starts
    inside: AtomicUsize,         // calls currently executing inside the recorder
    entered_after_final: AtomicUsize,
    saw_final_while_inside: AtomicUsize,
    drops: AtomicUsize,
    log: Mutex<Vec<(u64, u64, u64)>>, // (emission id, enter stamp, exit stamp)
    handle_updates: AtomicUsize,
    linger: usize,
    misrouted: Mutex<Vec<(u8, u8)>>, // (method the emission was made through, method it arrived at)
    nested_attempts: AtomicUsize,
    nested_arrivals: AtomicUsize,
}

struct Rec {
    obs: Arc<Obs>,
    canary: u64,
}

struct H {
    obs: Arc<Obs>,
}
impl CounterFn for H {
    fn increment(&self, _: u64) {
        self.obs.handle_updates.fetch_add(1, Ordering::SeqCst);
    }
    fn absolute(&self, _: u64) {
        self.obs.handle_updates.fetch_add(1, Ordering::SeqCst);
    }
}

thread_local! {
    static CUR_EMISSION: std::cell::Cell<u64> = const { std::cell::Cell::new(0) };
    /// which Recorder method the emission in progress on this thread was made through (emit's kind % 6; 99 = unknown)
    static CUR_METHOD: std::cell::Cell<u8> = const { std::cell::Cell::new(99) };
    /// the wrapper through which a recorder that instruments itself emits from inside its own calls (null = off)
    static NESTED_VIA: std::cell::Cell<Option<*const (dyn Recorder + Send + Sync)>> = const { std::cell::Cell::new(None) };
    static NESTED_DEPTH: std::cell::Cell<u32> = const { std::cell::Cell::new(0) };
}

impl Rec {
    fn call(&self, method: u8) {
        let o = &self.obs;
        let want = CUR_METHOD.with(|c| c.get());
        if want != 99 && want != method {
            o.misrouted.lock().unwrap().push((want, method));
        }
        let enter = o.stamp.fetch_add(1, Ordering::SeqCst);
        if o.finalised.load(Ordering::SeqCst) || self.canary != 0xC20C20 {
            o.entered_after_final.fetch_add(1, Ordering::SeqCst);
        }
        o.inside.fetch_add(1, Ordering::SeqCst);
        rt::mark("@op", 0);
        // a recorder that instruments itself: from inside this call, on the same thread, one more emission through the
        // wrapper; the handle is alive (we are inside the recorder), so it must arrive here as well
        if let Some(w) = NESTED_VIA.with(|c| c.get()) {
            if NESTED_DEPTH.with(|c| c.get()) == 0 {
                NESTED_DEPTH.with(|c| c.set(1));
                let saved = CUR_METHOD.with(|c| c.replace(4));
                o.nested_attempts.fetch_add(1, Ordering::SeqCst);
                unsafe { (*w).describe_gauge(KeyName::from_const_str("c20_nested"), None, SharedString::const_str("nested")) };
                CUR_METHOD.with(|c| c.set(saved));
                NESTED_DEPTH.with(|c| c.set(0));
            } else {
                o.nested_arrivals.fetch_add(1, Ordering::SeqCst);
            }
        }
        // linger inside the recorder for a bounded number of steps so that a premature recovery becomes observable
        for _ in 0..o.linger {
            if o.finalised.load(Ordering::SeqCst) {
                o.saw_final_while_inside.fetch_add(1, Ordering::SeqCst);
                break;
            }
            std::thread::yield_now();
        }
        o.inside.fetch_sub(1, Ordering::SeqCst);
        let exit = o.stamp.fetch_add(1, Ordering::SeqCst);
        o.log.lock().unwrap().push((CUR_EMISSION.with(|c| c.get()), enter, exit));
    }
}

impl Drop for Rec {
    fn drop(&mut self) {
        self.obs.finalised.store(true, Ordering::SeqCst);
        self.obs.drops.fetch_add(1, Ordering::SeqCst);
        self.canary = 0;
    }
}

impl Recorder for Rec {
    fn describe_counter(&self, _: KeyName, _: Option<Unit>, _: SharedString) {
        self.call(3)
    }
    fn describe_gauge(&self, _: KeyName, _: Option<Unit>, _: SharedString) {
        self.call(4)
    }
    fn describe_histogram(&self, _: KeyName, _: Option<Unit>, _: SharedString) {
        self.call(5)
    }
    fn register_counter(&self, _: &Key, _: &Metadata<'_>) -> Counter {
        self.call(0);
        Counter::from_arc(Arc::new(H { obs: self.obs.clone() }))
    }
    fn register_gauge(&self, _: &Key, _: &Metadata<'_>) -> Gauge {
        self.call(1);
        Gauge::noop()
    }
    fn register_histogram(&self, _: &Key, _: &Metadata<'_>) -> Histogram {
        self.call(2);
        Histogram::noop()
    }
}

fn new_obs(linger: usize) -> Arc<Obs> {
    Arc::new(Obs {
        stamp: AtomicU64::new(1),
        finalised: AtomicBool::new(false),
        inside: AtomicUsize::new(0),
        entered_after_final: AtomicUsize::new(0),
        saw_final_while_inside: AtomicUsize::new(0),
        drops: AtomicUsize::new(0),
        log: Mutex::new(Vec::new()),
        handle_updates: AtomicUsize::new(0),
        linger,
        misrouted: Mutex::new(Vec::new()),
        nested_attempts: AtomicUsize::new(0),
        nested_arrivals: AtomicUsize::new(0),
    })
}

static MD: Metadata<'static> = Metadata::new("c20", Level::INFO, None);

struct UnrelatedPanic;
/// Runs its closure when dropped (to call into the code under test while the thread is unwinding).
struct OnDrop<F: FnOnce()>(Option<F>);
impl<F: FnOnce()> Drop for OnDrop<F> {
    fn drop(&mut self) {
        if let Some(f) = self.0.take() {
            f()
        }
    }
}

fn emit(w: &dyn Recorder, kind: u64) -> Option<Counter> {
    CUR_METHOD.with(|c| c.set((kind % 6) as u8));
    let key = Key::from_static_name("c20");
    match kind % 6 {
        0 => return Some(w.register_counter(&key, &MD)),
        1 => {
            let _ = w.register_gauge(&key, &MD);
        }
        2 => {
            let _ = w.register_histogram(&key, &MD);
        }
        3 => w.describe_counter(KeyName::from_const_str("c20"), None, SharedString::const_str(if kind % 12 == 3 { "d" } else { "" })),
        4 => w.describe_gauge(KeyName::from_const_str("c20"), Some(Unit::Count), SharedString::const_str(if kind % 12 == 4 { "" } else { "d" })),
        _ => w.describe_histogram(KeyName::from_const_str("c20"), None, SharedString::const_str(if kind % 12 == 5 { "d" } else { "" })),
    }
    None
}

pub fn run(a: &Args) -> Option<Report> {
    match a.leg.as_str() {
        "trials" | "miri" | "tsan" => Some(run_trials(a)),
        "install" => Some(run_install(a)),
        _ => None,
    }
}

fn run_trials(a: &Args) -> Report {
    rt::quiet_panics();
    let mut rep = Report::new("C20", &a.leg, a.seed);
    let mut r = Rng::new(a.shard_seed());
    let miri = cfg!(miri);
    let trials = if miri { 4 } else { a.budget(6000, 600_000) };
    let mut sigs = std::collections::HashSet::new();
    let mut windows = 0u64;
    for t in 0..trials {
        let linger = if miri { 3 } else { *r.pick(&[0usize, 0, 5, 40]) };
        let obs = new_obs(linger);
        let rec = Rec { obs: obs.clone(), canary: 0xC20C20 };
        let (wrapper, handle) = RecoverableRecorder::new(rec).verif_build();
        let wrapper: Arc<dyn Recorder + Send + Sync> = Arc::new(wrapper);
        let nemit = if miri { 2 } else { 1 + r.usize(6) };
        let per = if miri { 4 } else { 1 + r.usize(12) };
        let recover_by_drop = r.chance(1, 3);
        let mode = if miri { 9 } else { t % 3 };
        let long_wait = mode == 0 && !recover_by_drop && r.chance(1, 100);
        let hold_recoverer = r.chance(1, 2);
        let self_instrumenting = r.chance(1, 3);
        let very_long = long_wait && r.chance(1, 3);
        // role 0 = recoverer, roles 1.. = emitters
        let mut rules = Vec::new();
        if mode == 0 {
            // emitter 1 is held right after upgrading (holding a strong reference) until the recoverer has tried and
            // failed at least once (spin) — or, for recovery by drop, until it is done
            if recover_by_drop {
                rules.push(Rule::new(1, "recoverable.after_upgrade", 1, 0, "@done", 1));
            } else {
                // now and then the emission outlasts many failed attempts: into_inner must keep waiting, however long
                rules.push(Rule::new(1, "recoverable.after_upgrade", 1, 0, "recoverable.into_inner.spin", if long_wait { if very_long { 70_000 } else { 64 } } else { 1 }));
            }
            rules.push(Rule::new(0, "@start", 1, 1, "recoverable.after_upgrade", 1));
            if !recover_by_drop && !long_wait && hold_recoverer {
                // the recoverer, having failed once, is held at the spin point until emitter 1 has left for good: the
                // last reference goes away between the failed attempt and whatever into_inner does next
                rules.push(Rule::new(0, "recoverable.into_inner.spin", 1, 1, "@done", 1));
            }
        }
        let policy = match mode {
            0 => Policy::GateRandom(rules, 1, 4, 2),
            1 => Policy::Random { num: 1, den: 2, hold: 2 },
            _ => Policy::Off,
        };
        let ctx = if long_wait { Ctx::with_gate_timeout(policy, true, std::time::Duration::from_secs(20)) } else { Ctx::new(policy, !miri) };
        if long_wait {
            rep.count("trials:emission-outlasts-64-recovery-attempts", 1);
        }
        let next_id = Arc::new(AtomicU64::new(1));
        // (emission id, call stamp, return stamp)
        let mut hs = Vec::new();
        for e in 0..nemit {
            let w = wrapper.clone();
            let o = obs.clone();
            let nid = next_id.clone();
            let seed = r.next_u64();
            hs.push(rt::spawn_role(&ctx, (1 + e) as u8, seed, move || {
                let mut r = Rng::new(seed);
                let mut out = Vec::new();
                let mut handles = Vec::new();
                let mut panics: Vec<String> = Vec::new();
                for _ in 0..per {
                    let id = nid.fetch_add(1, Ordering::SeqCst);
                    CUR_EMISSION.with(|c| c.set(id));
                    let call = o.stamp.fetch_add(1, Ordering::SeqCst);
                    let kind = r.below(12);
                    let nested = self_instrumenting && r.chance(1, 4);
                    NESTED_VIA.with(|c| c.set(if nested { Some(std::sync::Arc::as_ptr(&w)) } else { None }));
                    // one emission in eight is made from a destructor while this thread unwinds from an unrelated
                    // (caught) panic: the handle is alive, so it must reach the recorder like any other
                    let unwinding = r.chance(1, 8);
                    let do_emit = || {
                        if unwinding {
                            let mut slot: Option<Option<Counter>> = None;
                            let _ = std::panic::catch_unwind(std::panic::AssertUnwindSafe(|| {
                                let _g = OnDrop(Some(|| slot = Some(emit(&*w, kind))));
                                std::panic::panic_any(UnrelatedPanic);
                            }));
                            slot.expect("destructor ran")
                        } else {
                            emit(&*w, kind)
                        }
                    };
                    match rt::catch(std::panic::AssertUnwindSafe(do_emit)) {
                        Ok(Some(h)) => handles.push((h, call)),
                        Ok(None) => {}
                        Err(m) => panics.push(m),
                    }
                    let ret = o.stamp.fetch_add(1, Ordering::SeqCst);
                    NESTED_VIA.with(|c| c.set(None));
                    out.push((id, call, ret));
                }
                (out, handles, panics)
            }));
        }
        let o2 = obs.clone();
        let delay = r.below(30);
        let (rtx, rrx) = std::sync::mpsc::channel::<(u64, u64, usize, Option<String>)>();
        let rh = rt::spawn_role(&ctx, 0, r.next_u64(), move || {
            let res = (move || {
            for _ in 0..delay {
                std::thread::yield_now();
            }
            let call = o2.stamp.fetch_add(1, Ordering::SeqCst);
            let mut inside_at_return = 0;
            if recover_by_drop {
                drop(handle);
            } else {
                match rt::catch(move || handle.into_inner()) {
                    Ok(rec) => {
                        // finalisation begins the moment into_inner returns
                        inside_at_return = o2.inside.load(Ordering::SeqCst);
                        o2.finalised.store(true, Ordering::SeqCst);
                        let intact = rec.canary == 0xC20C20;
                        std::thread::yield_now();
                        drop(rec);
                        if !intact {
                            inside_at_return += 1000;
                        }
                    }
                    Err(m) => {
                        // recovery must hand the recorder back, not panic
                        o2.finalised.store(true, Ordering::SeqCst);
                        return (call, o2.stamp.fetch_add(1, Ordering::SeqCst), usize::MAX, Some(m));
                    }
                }
            }
            let ret = o2.stamp.fetch_add(1, Ordering::SeqCst);
            (call, ret, inside_at_return, None)
            })();
            let _ = rtx.send(res);
        });
        let mut emissions = Vec::new();
        let mut handles = Vec::new();
        let mut emit_panics: Vec<String> = Vec::new();
        for h in hs {
            let (o, hh, pp) = h.join().unwrap();
            emissions.extend(o);
            handles.extend(hh);
            emit_panics.extend(pp);
        }
        // bounded progress: every emitter has been joined, so nothing can be inside the recorder or hold a reference to
        // it any more; the recovery has nothing left to wait for
        let (rcall, rret, inside_at_return, recover_panic): (u64, u64, usize, Option<String>) = match rrx.recv_timeout(std::time::Duration::from_secs(if miri { 600 } else { 20 })) {
            Ok(x) => {
                let _ = rh.join();
                x
            }
            Err(_) => {
                ctx.abort.store(true, Ordering::SeqCst);
                rep.violation("C20:recovery-never-returned", jo! {"what" => "all emitter threads had finished and been joined (no emission inside the recorder, no reference held), yet the recovery had not returned 20 s later", "recover_by" => if recover_by_drop {"drop(handle)"} else {"into_inner"}, "emitters" => nemit, "emissions_each" => per, "schedule_mode" => mode, "recoverer_held_at_first_failed_attempt_until_emitter_left" => hold_recoverer});
                // the stuck thread is left behind (it owns the handle); stop this leg here
                break;
            }
        };
        ctx.abort.store(true, Ordering::SeqCst);
        if ctx.expired.load(Ordering::SeqCst) > 0 {
            rep.inconclusive("gate expired");
            continue;
        }
        // post-recovery: registrations and descriptions are ignored and yield inert handles
        let before = obs.log.lock().unwrap().len();
        let upd_before = obs.handle_updates.load(Ordering::SeqCst);
        for k in 0..6 {
            if let Some(h) = emit(&*wrapper, k) {
                h.increment(1);
                h.absolute(5);
            }
        }
        let after = obs.log.lock().unwrap().len();
        let upd_after = obs.handle_updates.load(Ordering::SeqCst);
        drop(wrapper);
        let hook_evs = ctx.take_events();
        let sig = Ctx::signature(&hook_evs, &|p| rt::POINTS[p as usize].starts_with("recoverable."));
        sigs.insert(sig);
        if mode == 0 && ctx.unsat.load(Ordering::SeqCst) == 0 {
            windows += 1;
        }
        let desc = jo! {"emitters" => nemit, "emissions_each" => per, "recover_by" => if recover_by_drop {"drop(handle)"} else {"into_inner"}, "linger_steps" => linger, "schedule_mode" => mode, "emission_outlasts_64_recovery_attempts" => long_wait, "emission_outlasts_70000_recovery_attempts" => very_long};
        rep.case(mix(sig, mix(rcall, rret) ^ emissions.len() as u64), nemit >= 1);
        let log = obs.log.lock().unwrap().clone();
        let reached: std::collections::HashMap<u64, (u64, u64)> = log.iter().map(|(id, en, ex)| (*id, (*en, *ex))).collect();
        let mut fail = |sig: &str, what: &str, extra: J| {
            rep.violation(sig, jo! {"what" => what, "trial" => desc.clone(), "recovery_call" => rcall, "recovery_return" => rret, "detail" => extra});
        };
        if let Some((want, got)) = obs.misrouted.lock().unwrap().first().cloned() {
            const NAMES: [&str; 6] = ["register_counter", "register_gauge", "register_histogram", "describe_counter", "describe_gauge", "describe_histogram"];
            fail("C20:emission-reached-another-recorder-method", "an emission made through one Recorder method of the wrapper arrived at a different method of the wrapped recorder", jo! {"made_through" => NAMES[want as usize % 6], "arrived_at" => NAMES[got as usize % 6]});
            continue;
        }
        let (na, nr) = (obs.nested_attempts.load(Ordering::SeqCst), obs.nested_arrivals.load(Ordering::SeqCst));
        if na != nr {
            fail("C20:nested-emission-not-delivered", "an emission made through the wrapper from inside one of the recorder's own calls (same thread, handle alive: a call is executing inside the recorder) did not reach the recorder", jo! {"nested_emissions_made" => na, "arrived" => nr});
            continue;
        }
        if let Some(m) = emit_panics.first() {
            fail("C20:emission-panicked", "an emission through the wrapper panicked (it must reach the recorder or be ignored and yield an inert handle)", jo! {"panic" => m.clone(), "emissions_that_panicked" => emit_panics.len()});
            continue;
        }
        if let Some(m) = &recover_panic {
            fail("C20:into_inner-panicked", "into_inner panicked instead of waiting and handing the recorder back", J::s(m.clone()));
            continue;
        }
        if obs.entered_after_final.load(Ordering::SeqCst) > 0 {
            fail("C20:call-entered-after-finalisation", "a call entered the wrapped recorder after its finalisation began", J::U(obs.entered_after_final.load(Ordering::SeqCst) as u64));
        }
        if !recover_by_drop && (inside_at_return > 0 || obs.saw_final_while_inside.load(Ordering::SeqCst) > 0) {
            fail("C20:into_inner-returned-while-emission-inside", "into_inner returned the recorder while an emission was executing inside it", jo! {"inside_at_return" => inside_at_return, "calls_that_saw_finalisation_while_inside" => obs.saw_final_while_inside.load(Ordering::SeqCst)});
        }
        if recover_by_drop && obs.saw_final_while_inside.load(Ordering::SeqCst) > 0 {
            fail("C20:dropped-while-emission-inside", "the recorder's Drop ran while an emission was executing inside it", J::Null);
        }
        for (id, call, ret) in &emissions {
            let r_ = reached.get(id);
            if *ret < rcall && r_.is_none() {
                fail("C20:live-emission-not-delivered", "an emission that returned before recovery was called did not reach the wrapped recorder", jo! {"emission" => *id, "call" => *call, "ret" => *ret});
            } else if !recover_by_drop && r_.is_none() {
                // into_inner cannot hand the recorder back while a call is executing inside it: if some call left the
                // recorder after this emission had returned, the recorder was still live and unrecovered for the whole of
                // this emission, whatever into_inner had started doing meanwhile
                if let Some((oid, _, oex)) = log.iter().find(|(_, _, ex)| *ex > *ret) {
                    fail("C20:live-emission-not-delivered:while-recovery-was-still-waiting", "an emission that started and returned while another call was still executing inside the recorder (so before into_inner could have recovered it) did not reach the wrapped recorder", jo! {"emission" => *id, "call" => *call, "ret" => *ret, "call_still_inside_afterwards" => *oid, "its_exit" => *oex});
                }
            }
            if *call > rret && r_.is_some() {
                // history class: the handle was dropped while some other emission was still in flight (it had been
                // invoked before the drop returned and left the recorder after it): the recorder is kept alive by that
                // emission's temporary strong reference and later emissions can still upgrade
                let another_in_flight = recover_by_drop
                    && emissions.iter().any(|(oid, ocall, oret)| oid != id && *ocall < rret && *oret > rret && reached.contains_key(oid));
                if another_in_flight {
                    fail("C20:emission-delivered-after-handle-drop:while-another-emission-in-flight", "an emission invoked after drop(handle) returned reached the wrapped recorder because another emission, in flight across the drop, still held a strong reference", jo! {"emission" => *id, "call" => *call});
                } else {
                    fail("C20:emission-delivered-after-recovery", "an emission invoked after recovery returned reached the wrapped recorder", jo! {"emission" => *id, "call" => *call});
                }
            }
        }
        if after != before {
            fail("C20:operation-not-ignored-after-recovery", "a registration/description through the wrapper after recovery reached the recorder", J::U((after - before) as u64));
        }
        if upd_after != upd_before {
            fail("C20:live-handle-after-recovery", "a handle registered after recovery was live", J::Null);
        }
        let d = obs.drops.load(Ordering::SeqCst);
        if d != 1 {
            fail("C20:recorder-drop-count", "the wrapped recorder was not dropped exactly once", J::U(d as u64));
        }
        // handles obtained while live keep working or not — the property does not say; nothing judged
        let _ = handles;
        if rep.want_sample() && t % 3 == 0 {
            rep.sample(jo! {"trial" => desc, "emissions" => emissions.len(), "reached_recorder" => log.len(), "recovery" => J::A(vec![J::U(rcall), J::U(rret)]), "hook_events" => hook_evs.len()});
        }
    }
    rep.count("interleaving_signatures", sigs.len() as u64);
    rep.count("window:recovery-attempted-while-emitter-holds-upgraded-reference", windows);
    rep
}

/// Process-level: the real install(), success path and the already-installed failure path.
fn run_install(a: &Args) -> Report {
    let mut rep = Report::new("C20", &a.leg, a.seed);
    let mut r = Rng::new(a.shard_seed());
    let fail_path = a.shard % 2 == 0;
    let obs = new_obs(0);
    let obs_first = new_obs(0);
    if fail_path {
        // a global recorder already exists
        let first = Rec { obs: obs_first.clone(), canary: 0xC20C20 };
        let _h = RecoverableRecorder::new(first).install().ok();
        std::mem::forget(_h);
    }
    let rec = Rec { obs: obs.clone(), canary: 0xC20C20 };
    let done = Arc::new(AtomicBool::new(false));
    let d2 = done.clone();
    let o2 = obs.clone();
    let nemit = 1 + r.usize(3);
    let th = std::thread::spawn(move || {
        let res = RecoverableRecorder::new(rec).install();
        d2.store(true, Ordering::SeqCst);
        match res {
            Ok(h) => {
                // live: emissions through the macros reach it
                let mut ths = Vec::new();
                for _ in 0..nemit {
                    ths.push(std::thread::spawn(|| {
                        for _ in 0..200 {
                            let c = metrics::counter!("c20_live");
                            c.increment(1);
                            metrics::describe_gauge!("c20_live", "d");
                        }
                    }));
                }
                for t in ths {
                    t.join().unwrap();
                }
                let reached = o2.log.lock().unwrap().len();
                let rec = h.into_inner();
                o2.finalised.store(true, Ordering::SeqCst);
                let intact = rec.canary == 0xC20C20;
                drop(rec);
                let c = metrics::counter!("c20_after");
                c.increment(1);
                (true, intact, reached)
            }
            Err(e) => {
                let rec = e.into_inner();
                let intact = rec.canary == 0xC20C20 && o2.drops.load(Ordering::SeqCst) == 0;
                drop(rec);
                (false, intact, 0)
            }
        }
    });
    // bounded progress in logical steps: no emission is in flight on the failure path, so install() must come back
    let t0 = std::time::Instant::now();
    while !done.load(Ordering::SeqCst) && t0.elapsed().as_secs() < 20 {
        std::thread::sleep(std::time::Duration::from_millis(5));
    }
    rep.case(mix(fail_path as u64, nemit as u64), true);
    rep.case(mix(fail_path as u64 + 2, a.shard), true);
    if !done.load(Ordering::SeqCst) {
        rep.violation(
            "C20:install-never-returned",
            jo! {"what" => "RecoverableRecorder::install() did not return although no emission was in flight (20 s)", "global_already_installed" => fail_path},
        );
        rep.write_to(&a.out);
        std::process::exit(0);
    }
    let (ok, intact, reached) = th.join().unwrap();
    if fail_path {
        if ok {
            rep.violation("C20:second-install-succeeded", jo! {"what" => "install() succeeded although a global recorder already existed"});
        }
        if !intact {
            rep.violation("C20:failed-install-recorder-not-intact", jo! {"what" => "a failed install did not hand the original recorder back intact"});
        }
        if obs.log.lock().unwrap().len() != 0 {
            rep.violation("C20:failed-install-recorder-received-calls", jo! {"what" => "a recorder whose installation failed received calls"});
        }
    } else {
        if !ok {
            rep.violation("C20:first-install-failed", jo! {"what" => "install() failed on a process without a global recorder"});
        }
        if reached != nemit * 400 {
            rep.violation("C20:live-emission-not-delivered", jo! {"what" => "emissions through the macros while the handle was alive did not all reach the recorder", "reached" => reached, "expected" => nemit * 400});
        }
        if obs.entered_after_final.load(Ordering::SeqCst) > 0 {
            rep.violation("C20:call-entered-after-finalisation", jo! {"what" => "a macro emission after into_inner reached the recorder"});
        }
    }
    if obs.drops.load(Ordering::SeqCst) != 1 {
        rep.violation("C20:recorder-drop-count", jo! {"what" => "recorder not dropped exactly once", "drops" => obs.drops.load(Ordering::SeqCst)});
    }
    rep.sample(jo! {"real_install" => true, "global_already_installed" => fail_path, "installed" => ok, "handed_back_intact" => intact, "emissions_reached" => reached});
    rep
}
