//! C05 — the lock-free bucket never loses, duplicates or invents a sample.
use crate::rt::{self, mix, Args, Ctx, Ev, Policy, Report, Rng, Rule, J};
use metrics_util::storage::AtomicBucket;
use std::collections::{HashMap, HashSet};
use std::sync::atomic::{AtomicU64, AtomicUsize, Ordering};
use std::sync::Arc;

#[derive(Clone, Debug, PartialEq)]
pub enum Kind {
    Push(u64),
    Clear,
    Snap,
    SnapVec,
    IsEmpty(bool),
}

#[derive(Clone, Debug)]
pub struct OpRec {
    pub role: u8,
    pub kind: Kind,
    pub call: u64,
    pub ret: u64,
    pub slices: Vec<Vec<u64>>,
}

impl OpRec {
    fn to_json(&self) -> J {
        let k = match &self.kind {
            Kind::Push(v) => format!("push({:#x})", v),
            Kind::Clear => "clear_with".into(),
            Kind::Snap => "data_with".into(),
            Kind::SnapVec => "data".into(),
            Kind::IsEmpty(b) => format!("is_empty={}", b),
        };
        let total: usize = self.slices.iter().map(|s| s.len()).sum();
        jo! {"role" => self.role as u64, "op" => k, "call" => self.call, "ret" => self.ret, "values_seen" => total}
    }
}

#[derive(Clone, Debug)]
pub enum Step {
    Push,
    Clear,
    Snap,
    SnapVec,
    IsEmpty,
}

fn id(role: u8, n: u64) -> u64 {
    ((role as u64 + 1) << 32) | n
}

/// Execute a role's program against the bucket, recording call/return stamps.
fn run_program(b: &AtomicBucket<u64>, role: u8, prog: &[Step], first_n: u64, stamp: &dyn Fn() -> u64) -> Vec<OpRec> {
    let mut out = Vec::with_capacity(prog.len());
    let mut n = first_n;
    for s in prog {
        match s {
            Step::Push => {
                let v = id(role, n);
                n += 1;
                let call = stamp();
                b.push(v);
                let ret = stamp();
                out.push(OpRec { role, kind: Kind::Push(v), call, ret, slices: vec![] });
            }
            Step::Clear => {
                let mut slices = Vec::new();
                let call = stamp();
                b.clear_with(|s| slices.push(s.to_vec()));
                let ret = stamp();
                out.push(OpRec { role, kind: Kind::Clear, call, ret, slices });
            }
            Step::Snap => {
                let mut slices = Vec::new();
                let call = stamp();
                b.data_with(|s| slices.push(s.to_vec()));
                let ret = stamp();
                out.push(OpRec { role, kind: Kind::Snap, call, ret, slices });
            }
            Step::SnapVec => {
                let call = stamp();
                let v = b.data();
                let ret = stamp();
                out.push(OpRec { role, kind: Kind::SnapVec, call, ret, slices: vec![v] });
            }
            Step::IsEmpty => {
                let call = stamp();
                let e = b.is_empty();
                let ret = stamp();
                out.push(OpRec { role, kind: Kind::IsEmpty(e), call, ret, slices: vec![] });
            }
        }
    }
    out
}

pub struct Verdict {
    pub sig: String,
    pub detail: J,
}

/// Offline oracle over a merged history. `final_ops` were executed after all threads joined
/// (quiescence): the last of them is a clear_with.
pub fn check_history(ops: &[OpRec], interval_rules: usize, check_slice_order: bool) -> Vec<Verdict> {
    // interval_rules == 0: stamps are globally ordered, all rules apply; 1: stamps are thread-local (no cross-thread
    // synchronisation added by the monitor), only order-free rules apply
    let ordered = interval_rules == 0;
    let mut out: Vec<Verdict> = Vec::new();
    let mut push: HashMap<u64, (u64, u64)> = HashMap::new(); // id -> (call, ret)
    for o in ops {
        if let Kind::Push(v) = o.kind {
            push.insert(v, (o.call, o.ret));
        }
    }
    // taken_by: id -> index of clear op
    let mut taken: HashMap<u64, usize> = HashMap::new();
    for (i, o) in ops.iter().enumerate() {
        let is_clear = o.kind == Kind::Clear;
        let is_snap = matches!(o.kind, Kind::Snap | Kind::SnapVec);
        if !(is_clear || is_snap) {
            continue;
        }
        let mut seen_here: HashSet<u64> = HashSet::new();
        for sl in &o.slices {
            // E7: per pusher, push order inside one callback slice
            if check_slice_order && o.kind != Kind::SnapVec {
                let mut last: HashMap<u64, u64> = HashMap::new();
                for v in sl {
                    let role = v >> 32;
                    if let Some(p) = last.get(&role) {
                        if *p >= (v & 0xFFFF_FFFF) {
                            out.push(Verdict {
                                sig: "C05:slice-order".into(),
                                detail: jo! {"what" => "one pusher's values out of push order within one block slice", "op" => o.to_json(), "value" => format!("{:#x}", v)},
                            });
                        }
                    }
                    last.insert(role, v & 0xFFFF_FFFF);
                }
            }
            for v in sl {
                match push.get(v) {
                    None => out.push(Verdict {
                        sig: "C05:fabricated-value".into(),
                        detail: jo! {"what" => "a value was observed that was never pushed", "value" => format!("{:#x}", v), "op" => o.to_json()},
                    }),
                    Some((pcall, _)) => {
                        if ordered && *pcall > o.ret {
                            out.push(Verdict {
                                sig: "C05:observed-before-push".into(),
                                detail: jo! {"what" => "a value was observed by an operation that returned before its push was called", "value" => format!("{:#x}", v), "op" => o.to_json()},
                            });
                        }
                    }
                }
                if !seen_here.insert(*v) {
                    out.push(Verdict {
                        sig: if is_clear { "C05:duplicate-delivery".into() } else { "C05:snapshot-duplicate".into() },
                        detail: jo! {"what" => "a value appears twice in one read", "value" => format!("{:#x}", v), "op" => o.to_json()},
                    });
                }
                if is_clear {
                    if let Some(prev) = taken.insert(*v, i) {
                        if prev != i {
                            out.push(Verdict {
                                sig: "C05:duplicate-delivery".into(),
                                detail: jo! {"what" => "a value was handed to two clearing reads", "value" => format!("{:#x}", v), "first" => ops[prev].to_json(), "second" => o.to_json()},
                            });
                        }
                    }
                }
            }
        }
    }
    // E3: at quiescence everything pushed has been delivered exactly once
    let mut lost: Vec<u64> = push.keys().filter(|v| !taken.contains_key(v)).cloned().collect();
    lost.sort();
    if !lost.is_empty() {
        out.push(Verdict {
            sig: "C05:lost-value".into(),
            detail: jo! {"what" => "values pushed but never handed to any clearing read although a final clear ran at quiescence",
            "lost" => J::A(lost.iter().take(8).map(|v| J::s(format!("{:#x}", v))).collect()), "lost_count" => lost.len(),
            "first_lost_push" => ops.iter().find(|o| o.kind == Kind::Push(lost[0])).map(|o| o.to_json()).unwrap_or(J::Null)},
        });
    }
    // E4 / E6: snapshot and is_empty must account for every value certainly present
    let clears: Vec<(usize, &OpRec)> = ops.iter().enumerate().filter(|(_, o)| o.kind == Kind::Clear).collect();
    for (i, o) in ops.iter().enumerate() {
        let is_snap = matches!(o.kind, Kind::Snap | Kind::SnapVec);
        let is_emp = matches!(o.kind, Kind::IsEmpty(_));
        if !(is_snap || is_emp) || !ordered {
            continue;
        }
        let seen: HashSet<u64> = o.slices.iter().flatten().cloned().collect();
        // candidate values: push returned before the op was called
        let mut certainly_present: Vec<u64> = Vec::new();
        for (v, (_, pret)) in &push {
            if *pret < o.call {
                // excused if some clear that was called before the op returned took it
                let excused = match taken.get(v) {
                    Some(ci) => ops[*ci].call < o.ret,
                    None => {
                        // never delivered at all (already reported as lost); any clear overlapping could be to blame
                        clears.iter().any(|(_, c)| c.call < o.ret)
                    }
                };
                if !excused {
                    certainly_present.push(*v);
                }
            }
        }
        if is_snap {
            let missing: Vec<u64> = certainly_present.iter().filter(|v| !seen.contains(v)).cloned().collect();
            if !missing.is_empty() {
                out.push(Verdict {
                    sig: "C05:snapshot-missed-completed-push".into(),
                    detail: jo! {"what" => "a snapshot read missed values whose push completed before it began and that no clear had taken",
                    "missing_count" => missing.len(), "missing" => J::A(missing.iter().take(6).map(|v| J::s(format!("{:#x}", v))).collect()), "op" => o.to_json(), "index" => i},
                });
            }
        }
        if let Kind::IsEmpty(e) = o.kind {
            if e && !certainly_present.is_empty() {
                out.push(Verdict {
                    sig: "C05:is_empty-true-with-value-present".into(),
                    detail: jo! {"what" => "is_empty() returned true although a completed, untaken push exists", "op" => o.to_json(),
                    "present" => J::A(certainly_present.iter().take(6).map(|v| J::s(format!("{:#x}", v))).collect())},
                });
            }
            if !e {
                // certainly absent: every push called before the op returned was taken by a clear that returned before the op was called
                let possibly_present = push.iter().any(|(v, (pcall, _))| {
                    *pcall < o.ret
                        && match taken.get(v) {
                            Some(ci) => !(ops[*ci].ret < o.call),
                            None => true,
                        }
                });
                if !possibly_present {
                    out.push(Verdict {
                        sig: "C05:is_empty-false-when-empty".into(),
                        detail: jo! {"what" => "is_empty() returned false although nothing can be present", "op" => o.to_json()},
                    });
                }
            }
        }
    }
    out
}

fn gen_program(r: &mut Rng, role_kind: u8, len: usize) -> Vec<Step> {
    // role_kind: 0 pusher, 1 snapshotter, 2 clearer, 3 poller, 4 mixed
    let mut p = Vec::new();
    for _ in 0..len {
        p.push(match role_kind {
            0 => Step::Push,
            1 => {
                if r.chance(1, 4) {
                    Step::SnapVec
                } else {
                    Step::Snap
                }
            }
            2 => Step::Clear,
            3 => Step::IsEmpty,
            _ => match r.below(10) {
                0..=5 => Step::Push,
                6 => Step::Snap,
                7 => Step::Clear,
                8 => Step::IsEmpty,
                _ => Step::SnapVec,
            },
        });
    }
    p
}

const PREFILLS: &[usize] = &[0, 1, 62, 63, 64, 65, 66, 127, 128, 129, 200];

struct Exec {
    ops: Vec<OpRec>,
    events: Vec<Ev>,
    expired: u32,
    unsat: u32,
    desc: J,
}

/// One concurrent execution: prefill, run role programs under `policy`, join, final quiescent ops.
fn execute(r: &mut Rng, prefill: usize, roles: Vec<(u8, Vec<Step>)>, policy: Policy, log: bool, use_ctx: bool) -> Exec {
    execute2(r, prefill, roles, policy, log, use_ctx, false)
}

fn execute2(r: &mut Rng, prefill: usize, roles: Vec<(u8, Vec<Step>)>, policy: Policy, log: bool, use_ctx: bool, nosync: bool) -> Exec {
    let bucket: Arc<AtomicBucket<u64>> = Arc::new(AtomicBucket::new());
    let ctx = Ctx::new(policy, log);
    let gstamp = Arc::new(AtomicU64::new(1));
    let mut ops = Vec::new();
    // prefill from role 15 (main thread, no hooks active: not entered)
    {
        let g = gstamp.clone();
        let c = ctx.clone();
        let st = move || if use_ctx { c.stamp() } else { g.fetch_add(1, Ordering::SeqCst) };
        ops.extend(run_program(&bucket, 15, &vec![Step::Push; 0], 0, &st));
        let prog: Vec<Step> = (0..prefill).map(|_| Step::Push).collect();
        ops.extend(run_program(&bucket, 15, &prog, 0, &st));
    }
    let mut hs = Vec::new();
    let desc_roles: Vec<J> = roles.iter().map(|(k, p)| jo! {"role_kind" => *k as u64, "ops" => p.len()}).collect();
    for (i, (_k, prog)) in roles.into_iter().enumerate() {
        let b = bucket.clone();
        let g = gstamp.clone();
        let c = ctx.clone();
        let seed = r.next_u64();
        let role = i as u8;
        let body = move || {
            let local = std::cell::Cell::new(0u64);
            let st = move || {
                if use_ctx {
                    c.stamp()
                } else if nosync {
                    local.set(local.get() + 1);
                    ((role as u64) << 40) | local.get()
                } else {
                    g.fetch_add(1, Ordering::SeqCst)
                }
            };
            run_program(&b, role, &prog, 0, &st)
        };
        if use_ctx {
            hs.push(rt::spawn_role(&ctx, role, seed, body));
        } else {
            hs.push(std::thread::spawn(body));
        }
    }
    for h in hs {
        ops.extend(h.join().unwrap());
    }
    ctx.abort.store(true, Ordering::SeqCst);
    let qfrom = ops.len();
    {
        let g = gstamp.clone();
        let c = ctx.clone();
        let st = move || if use_ctx { c.stamp() } else { g.fetch_add(1, Ordering::SeqCst) };
        ops.extend(run_program(&bucket, 14, &[Step::IsEmpty, Step::Snap, Step::Clear, Step::IsEmpty, Step::Snap], 0, &st));
    }
    let _ = qfrom;
    let events = ctx.take_events();
    Exec { ops, events, expired: ctx.expired.load(Ordering::SeqCst), unsat: ctx.unsat.load(Ordering::SeqCst), desc: jo! {"prefill" => prefill, "roles" => J::A(desc_roles)} }
}

fn critical(p: u8) -> bool {
    let n = rt::POINTS[p as usize];
    n.starts_with("bucket.") && !n.ends_with(".spin")
}

fn windows_seen(events: &[Ev], counts: &mut HashMap<String, u64>) {
    // for each (role, open point) .. next event of the same role: did another role log a critical event inside?
    let mut open: HashMap<u8, (u8, usize)> = HashMap::new(); // role -> (point, index)
    for (i, e) in events.iter().enumerate() {
        if let Some((p, idx)) = open.get(&e.role).cloned() {
            let foreign = events[idx + 1..i].iter().any(|x| x.role != e.role && critical(x.point));
            if foreign {
                *counts.entry(format!("window-after:{}", rt::POINTS[p as usize])).or_insert(0) += 1;
            }
        }
        if critical(e.point) {
            open.insert(e.role, (e.point, i));
        } else {
            open.remove(&e.role);
        }
    }
}

fn report_exec(rep: &mut Report, ex: &Exec, sigset: &mut HashSet<u64>, win: &mut HashMap<String, u64>, leg_tag: &str, extra: J) {
    if ex.expired > 0 {
        rep.inconclusive("gate expired (peer could not satisfy the directed schedule)");
        return;
    }
    let sig = Ctx::signature(&ex.events, &critical);
    sigset.insert(sig);
    windows_seen(&ex.events, win);
    let concurrent = ex.ops.iter().any(|o| matches!(o.kind, Kind::Clear | Kind::Snap | Kind::SnapVec)) && ex.ops.len() > 6;
    let mut h = sig;
    for o in &ex.ops {
        h = mix(h, o.call ^ ((o.role as u64) << 56));
    }
    rep.case(h, concurrent);
    let verdicts = check_history(&ex.ops, 0, true);
    for v in verdicts {
        let detail = v.detail.set("execution", ex.desc.clone()).set("leg", J::s(leg_tag)).set("schedule", extra.clone());
        rep.violation(v.sig, detail);
    }
    if rep.want_sample() {
        let excerpt: Vec<J> = ex.ops.iter().filter(|o| !matches!(o.kind, Kind::Push(_)) || o.role < 14).take(14).map(|o| o.to_json()).collect();
        rep.sample(jo! {"execution" => ex.desc.clone(), "schedule" => extra, "ops" => ex.ops.len(), "hook_events" => ex.events.len(), "history_excerpt" => J::A(excerpt)});
    }
}

pub fn run(a: &Args) -> Option<Report> {
    match a.leg.as_str() {
        "seq" => Some(run_seq(a)),
        "gate" => Some(run_gate(a)),
        "gate-big" => Some(run_gate_big(a)),
        "random" => Some(run_random(a)),
        "stress" => Some(run_stress(a)),
        "drops" | "asan-drops" | "miri-drops" => Some(run_drops(a)),
        "miri" | "asan" | "tsan" => Some(run_small_concurrent(a)),
        _ => None,
    }
}

/// Sequential histories vs. a reference vector (exact).
fn run_seq(a: &Args) -> Report {
    let mut rep = Report::new("C05", &a.leg, a.seed);
    let mut r = Rng::new(a.shard_seed());
    let n = a.budget(3000, 300_000);
    for _ in 0..n {
        let b: AtomicBucket<u64> = AtomicBucket::new();
        let mut model: Vec<u64> = Vec::new();
        let len = 1 + r.usize(60);
        let mut next = 0u64;
        let mut h = 0u64;
        let mut nontrivial = false;
        let mut hist: Vec<String> = Vec::new();
        for _ in 0..len {
            let op = r.below(12);
            h = mix(h, op);
            match op {
                0..=4 => {
                    let burst = *r.pick(&[1usize, 1, 2, 3, 62, 63, 64, 65, 130]);
                    h = mix(h, burst as u64);
                    for _ in 0..burst {
                        b.push(next);
                        model.push(next);
                        next += 1;
                    }
                    hist.push(format!("push x{}", burst));
                }
                5 | 6 => {
                    let got = if op == 5 {
                        b.data()
                    } else {
                        let mut v = Vec::new();
                        b.data_with(|s| v.extend_from_slice(s));
                        v
                    };
                    // expected: blocks of 64 in reverse block order, push order inside a block
                    let mut exp: Vec<u64> = Vec::new();
                    for ch in model.chunks(64).rev() {
                        exp.extend_from_slice(ch);
                    }
                    let mut gs = got.clone();
                    gs.sort();
                    let mut ms = model.clone();
                    ms.sort();
                    if gs != ms {
                        rep.violation("C05:seq-snapshot-differs", jo! {"what" => "sequential snapshot is not exactly the values pushed since the last clear", "got_len" => got.len(), "expected_len" => model.len(), "history" => J::A(hist.iter().map(|s| J::s(s.clone())).collect())});
                    } else if got != exp {
                        rep.violation("C05:slice-order", jo! {"what" => "sequential snapshot order is not reverse-blocks/in-order-within-block", "history" => J::A(hist.iter().map(|s| J::s(s.clone())).collect())});
                    }
                    nontrivial |= model.len() > 64;
                    hist.push(format!("data -> {}", got.len()));
                }
                7 | 8 => {
                    let mut v = Vec::new();
                    if op == 7 {
                        b.clear_with(|s| v.extend_from_slice(s));
                        let mut gs = v.clone();
                        gs.sort();
                        let mut ms = model.clone();
                        ms.sort();
                        if gs != ms {
                            rep.violation("C05:seq-clear-differs", jo! {"what" => "sequential clear_with did not hand over exactly the values pushed since the last clear", "got_len" => v.len(), "expected_len" => model.len(), "history" => J::A(hist.iter().map(|s| J::s(s.clone())).collect())});
                        }
                    } else {
                        b.clear();
                    }
                    model.clear();
                    hist.push("clear".into());
                }
                _ => {
                    let e = b.is_empty();
                    if e != model.is_empty() {
                        rep.violation(if e { "C05:is_empty-true-with-value-present" } else { "C05:is_empty-false-when-empty" }, jo! {"what" => "sequential is_empty() disagrees with the reference", "got" => e, "model_len" => model.len(), "history" => J::A(hist.iter().map(|s| J::s(s.clone())).collect())});
                    }
                    hist.push(format!("is_empty -> {}", e));
                }
            }
        }
        rep.case(h, nontrivial);
        if rep.want_sample() && nontrivial {
            rep.sample(jo! {"history" => J::A(hist.iter().map(|s| J::s(s.clone())).collect())});
        }
    }
    rep
}

/// Directed schedules: force a complete intruding operation into each window of a victim operation.
fn run_gate(a: &Args) -> Report {
    let mut rep = Report::new("C05", &a.leg, a.seed);
    let mut r = Rng::new(a.shard_seed());
    let victims: &[(&str, u8)] = &[
        ("bucket.push.after_tail_load", 0),
        ("bucket.block_push.after_claim", 0),
        ("bucket.block_push.after_write", 0),
        ("bucket.push.after_block_cas", 0),
        ("bucket.push.after_link", 0),
        ("bucket.clear.after_tail_load", 2),
        ("bucket.clear.after_detach", 2),
        ("bucket.clear.after_quiesce", 2),
        ("bucket.clear.after_read", 2),
        ("bucket.data.after_tail_load", 1),
        ("bucket.data.after_quiesce", 1),
    ];
    let intruders: &[u8] = &[0, 1, 2, 3]; // push, snapshot, clear, is_empty
    let mut sigset = HashSet::new();
    let mut win: HashMap<String, u64> = HashMap::new();
    let rounds = ((if a.thorough() { 40.0 } else { 2.0 }) * a.scale).ceil() as u64;
    let mut combos = 0u64;
    for round in 0..rounds {
        for (vi, (vpoint, vkind)) in victims.iter().enumerate() {
            for ik in intruders {
                for &prefill in PREFILLS {
                    // shard the cartesian product
                    combos += 1;
                    if combos % a.shards != a.shard {
                        continue;
                    }
                    let nth = 1 + (round % 2) as u32 + if round >= 2 { r.below(3) as u32 } else { 0 };
                    // victim = role 0, intruder = role 1, plus (later rounds) a background role 2
                    let vlen = match vkind {
                        0 => 3 + r.usize(4),
                        _ => 2,
                    };
                    let vprog = gen_program(&mut r, *vkind, vlen);
                    let il = 1 + r.usize(2);
                    let iprog = gen_program(&mut r, *ik, il);
                    let mut roles = vec![(*vkind, vprog), (*ik, iprog)];
                    if round >= 1 {
                        let bl = 4 + r.usize(8);
                        roles.push((4, gen_program(&mut r, 4, bl)));
                    }
                    // intruder waits for the victim to sit in the window; victim waits for the intruder to finish.
                    // If the intruder is a reader and the victim holds a claimed-but-unwritten slot the reader must
                    // spin, so the victim instead waits for the reader's spin point.
                    let reader_blocks = (*vpoint == "bucket.block_push.after_claim" || *vpoint == "bucket.block_push.after_write") && (*ik == 1 || *ik == 2);
                    let mut rules = vec![Rule::new(1, "@start", 1, 0, vpoint, nth)];
                    if reader_blocks {
                        let sp = if *ik == 1 { "bucket.data.spin" } else { "bucket.clear.spin" };
                        // either the reader spins on our block, or it finishes (it may not touch our block at all)
                        rules.push(Rule::new(0, vpoint, nth, 1, sp, 1));
                    } else {
                        rules.push(Rule::new(0, vpoint, nth, 1, "@done", 1));
                    }
                    let sched = jo! {"victim_point" => *vpoint, "nth" => nth as u64, "intruder" => *ik as u64, "prefill" => prefill, "victim_index" => vi};
                    let ex = execute(&mut r, prefill, roles, Policy::Gate(rules), true, true);
                    if ex.unsat > 0 {
                        rep.count("gate:unsatisfiable-schedule(ran-ungated)", 1);
                    } else if ex.expired == 0 {
                        rep.count(&format!("gate-hit:{}:intruder{}", vpoint, ik), 1);
                    }
                    report_exec(&mut rep, &ex, &mut sigset, &mut win, "gate", sched);
                }
            }
        }
    }
    // three-party schedules: a snapshot reader that has passed its quiescence wait is held while pusher A claims the next
    // slot and stalls and pusher B claims the one after and completes (a hole in the completion bitmap); the reader then
    // builds its slice. Also with a clear or an is_empty poll in the reader's place.
    for round in 0..rounds.max(2) {
        for &prefill in PREFILLS {
            for rk in [1u8, 2, 3, 4] {
                combos += 1;
                if combos % a.shards != a.shard {
                    continue;
                }
                // rk 4: a snapshot reader arriving after A stalled and B completed; it has to wait for A however long
                // that takes (A is only released once the reader has spun 30 times on the block, or has finished)
                let late_reader = rk == 4;
                let rk = if late_reader { 1 } else { rk };
                let (win_point, spin): (&str, &str) = match rk {
                    1 => ("bucket.data.after_quiesce", "bucket.data.spin"),
                    2 => ("bucket.clear.after_detach", "bucket.clear.spin"),
                    _ => ("@start", "@done"),
                };
                let roles = vec![(rk, gen_program(&mut r, rk, 1)), (0u8, gen_program(&mut r, 0, 1)), (0u8, gen_program(&mut r, 0, 1 + (round % 2) as usize))];
                let mut rules = Vec::new();
                if late_reader {
                    rules.push(Rule::new(1, "bucket.block_push.after_claim", 1, 0, spin, 30));
                    rules.push(Rule::new(2, "@start", 1, 1, "bucket.block_push.after_claim", 1));
                    rules.push(Rule::new(0, "@start", 1, 2, "@done", 1));
                } else if rk == 1 {
                    rules.push(Rule::new(1, "@start", 1, 0, win_point, 1));
                    rules.push(Rule::new(0, win_point, 1, 2, "@done", 1));
                    rules.push(Rule::new(1, "bucket.block_push.after_claim", 1, 0, "@done", 1));
                    rules.push(Rule::new(2, "@start", 1, 1, "bucket.block_push.after_claim", 1));
                } else {
                    // A claims and stalls; B completes behind it; then the clear / poll runs (a clear must wait for A:
                    // A is released when the clear spins on its block or finishes)
                    rules.push(Rule::new(1, "bucket.block_push.after_claim", 1, 0, spin, 1));
                    rules.push(Rule::new(2, "@start", 1, 1, "bucket.block_push.after_claim", 1));
                    rules.push(Rule::new(0, "@start", 1, 2, "@done", 1));
                }
                let sched = jo! {"three_party" => true, "reader_kind" => rk as u64, "prefill" => prefill, "what" => "pusher A claimed a slot and stalled, pusher B completed the next slot, reader/clear/poll in between"};
                let ex = execute(&mut r, prefill, roles, Policy::Gate(rules), true, true);
                if ex.unsat > 0 {
                    rep.count("gate:unsatisfiable-schedule(ran-ungated)", 1);
                } else if ex.expired == 0 {
                    rep.count(&format!("gate-hit:hole-in-completion-bitmap:reader{}{}", rk, if late_reader { ":arriving-late" } else { "" }), 1);
                }
                report_exec(&mut rep, &ex, &mut sigset, &mut win, "gate", sched);
            }
        }
    }
    rep.count("interleaving_signatures", sigset.len() as u64);
    for (k, v) in win {
        rep.count(&k, v);
    }
    rep
}

/// A clear covering dozens of blocks while a snapshot reader (or an is_empty poll) that has already loaded the tail
/// pointer is parked: the detached blocks must stay readable until the reader is done (deferred reclamation). Run
/// natively (values must be the pushed ones) and under memcheck / ASan (the access itself is judged).
fn run_gate_big(a: &Args) -> Report {
    let mut rep = Report::new("C05", &a.leg, a.seed);
    let mut r = Rng::new(a.shard_seed());
    let mut sigset = HashSet::new();
    let mut win: HashMap<String, u64> = HashMap::new();
    let rounds = a.budget(4, 40);
    for round in 0..rounds {
        let prefill = 64 * (33 + r.usize(8)) + r.usize(64);
        let rk: u8 = if round % 2 == 0 { 1 } else { 3 };
        let point = if rk == 1 { "bucket.data.after_tail_load" } else { "@start" };
        let roles = vec![(rk, gen_program(&mut r, rk, 1)), (2u8, gen_program(&mut r, 2, 1))];
        let rules = if rk == 1 {
            vec![Rule::new(0, point, 1, 1, "@done", 1), Rule::new(1, "@start", 1, 0, point, 1)]
        } else {
            vec![Rule::new(1, "@start", 1, 0, "@start", 1)]
        };
        let sched = jo! {"large_clear_vs_parked_reader" => true, "prefill" => prefill, "reader_kind" => rk as u64};
        let ex = execute(&mut r, prefill, roles, Policy::Gate(rules), true, true);
        if ex.unsat == 0 && ex.expired == 0 {
            rep.count("gate-hit:large-clear-while-reader-holds-the-tail-pointer", 1);
        }
        report_exec(&mut rep, &ex, &mut sigset, &mut win, "gate", sched);
    }
    rep
}

fn run_random(a: &Args) -> Report {
    let mut rep = Report::new("C05", &a.leg, a.seed);
    let mut r = Rng::new(a.shard_seed());
    let n = a.budget(1500, 150_000);
    let mut sigset = HashSet::new();
    let mut win: HashMap<String, u64> = HashMap::new();
    for _ in 0..n {
        let prefill = *r.pick(PREFILLS);
        let np = 1 + r.usize(4);
        let mut roles = Vec::new();
        for _ in 0..np {
            let len = *r.pick(&[1usize, 2, 5, 30, 70]);
            roles.push((0u8, gen_program(&mut r, 0, len)));
        }
        for _ in 0..r.usize(3) {
            let len = 1 + r.usize(4);
            roles.push((1u8, gen_program(&mut r, 1, len)));
        }
        for _ in 0..(1 + r.usize(2)) {
            let len = 1 + r.usize(4);
            roles.push((2u8, gen_program(&mut r, 2, len)));
        }
        if r.chance(1, 2) {
            roles.push((3u8, gen_program(&mut r, 3, 3)));
        }
        if r.chance(1, 3) {
            roles.push((4u8, gen_program(&mut r, 4, 20)));
        }
        let policy = Policy::Random { num: 1 + r.below(3) as u32, den: 4, hold: 1 + r.below(6) as u32 };
        let ex = execute(&mut r, prefill, roles, policy, true, true);
        report_exec(&mut rep, &ex, &mut sigset, &mut win, "random", J::Null);
    }
    rep.count("interleaving_signatures", sigset.len() as u64);
    for (k, v) in win {
        rep.count(&k, v);
    }
    rep
}

/// Plain stress: no hook context (hooks are no-ops), many threads, many pushes; stamps from one atomic.
fn run_stress(a: &Args) -> Report {
    let mut rep = Report::new("C05", &a.leg, a.seed);
    let mut r = Rng::new(a.shard_seed());
    let rounds = a.budget(12, 600);
    let mut total_pushes = 0u64;
    for _ in 0..rounds {
        let np = 2 + r.usize(7);
        let per = *r.pick(&[2_000usize, 20_000, 60_000]);
        let mut roles = Vec::new();
        for _ in 0..np {
            roles.push((0u8, gen_program(&mut r, 0, per)));
        }
        for _ in 0..(1 + r.usize(2)) {
            let l = 40 + r.usize(200);
            roles.push((2u8, gen_program(&mut r, 2, l)));
        }
        for _ in 0..r.usize(3) {
            let l = 20 + r.usize(40);
            roles.push((1u8, gen_program(&mut r, 1, l)));
        }
        roles.push((3u8, gen_program(&mut r, 3, 200)));
        total_pushes += (np * per) as u64;
        let pf = *r.pick(PREFILLS);
        let ex = execute(&mut r, pf, roles, Policy::Off, false, false);
        let mut h = 0u64;
        for o in ex.ops.iter().filter(|o| !matches!(o.kind, Kind::Push(_))) {
            h = mix(h, o.call ^ o.ret.rotate_left(17));
        }
        rep.case(h, true);
        for v in check_history(&ex.ops, 0, true) {
            rep.violation(v.sig, v.detail.set("execution", ex.desc.clone()).set("leg", J::s("stress")));
        }
        if rep.want_sample() {
            let clears: Vec<J> = ex.ops.iter().filter(|o| o.kind == Kind::Clear).take(6).map(|o| o.to_json()).collect();
            rep.sample(jo! {"execution" => ex.desc.clone(), "ops" => ex.ops.len(), "clears_excerpt" => J::A(clears)});
        }
    }
    rep.count("pushes", total_pushes);
    rep
}

/// Small concurrent executions for Miri / ASan / TSan: minimal-synchronisation oracle (joins only).
fn run_small_concurrent(a: &Args) -> Report {
    let mut rep = Report::new("C05", &a.leg, a.seed);
    let mut r = Rng::new(a.shard_seed());
    let miri = cfg!(miri);
    let n = if miri { 2 } else { a.budget(300, 20_000) };
    for _ in 0..n {
        let prefill = *r.pick(&[0usize, 1, 63, 64, 65]);
        let np = if miri { 2 } else { 2 + r.usize(3) };
        let mut roles = Vec::new();
        for _ in 0..np {
            let l = if miri { 40 } else { 100 + r.usize(200) };
            roles.push((0u8, gen_program(&mut r, 0, l)));
        }
        roles.push((2u8, gen_program(&mut r, 2, if miri { 3 } else { 10 })));
        if !miri || r.chance(1, 2) {
            roles.push((1u8, gen_program(&mut r, 1, if miri { 2 } else { 6 })));
        }
        let ex = execute2(&mut r, prefill, roles, Policy::Off, false, false, true);
        let mut h = 0u64;
        for o in ex.ops.iter().filter(|o| !matches!(o.kind, Kind::Push(_))) {
            h = mix(h, o.call ^ o.ret.rotate_left(17) ^ (o.slices.iter().map(|s| s.len() as u64).sum::<u64>() << 7));
        }
        rep.case(h, true);
        for v in check_history(&ex.ops, 1, true) {
            rep.violation(v.sig, v.detail.set("execution", ex.desc.clone()).set("leg", J::s(a.leg.clone())));
        }
        if rep.want_sample() {
            rep.sample(jo! {"execution" => ex.desc.clone(), "ops" => ex.ops.len()});
        }
    }
    rep
}

// ------------------------------------------------------------------------------------------
// Element type with a destructor: exactly-once drop accounting
// ------------------------------------------------------------------------------------------
pub struct Tok {
    id: usize,
    table: Arc<Vec<AtomicUsize>>,
}
impl Drop for Tok {
    fn drop(&mut self) {
        self.table[self.id].fetch_add(1, Ordering::SeqCst);
    }
}

fn run_drops(a: &Args) -> Report {
    let mut rep = Report::new("C05", &a.leg, a.seed);
    let mut r = Rng::new(a.shard_seed());
    let miri = cfg!(miri);
    let n = if miri { 2 } else { a.budget(200, 20_000) };
    for _ in 0..n {
        let np = if miri { 2 } else { 1 + r.usize(4) };
        let per = if miri { 70 } else { *r.pick(&[1usize, 10, 64, 65, 200]) };
        let total = np * per;
        let table: Arc<Vec<AtomicUsize>> = Arc::new((0..total).map(|_| AtomicUsize::new(0)).collect());
        let bucket: Arc<AtomicBucket<Tok>> = Arc::new(AtomicBucket::new());
        let seen_after_drop = Arc::new(AtomicUsize::new(0));
        let delivered = Arc::new(AtomicUsize::new(0));
        let mut hs = Vec::new();
        for p in 0..np {
            let b = bucket.clone();
            let t = table.clone();
            hs.push(std::thread::spawn(move || {
                for i in 0..per {
                    b.push(Tok { id: p * per + i, table: t.clone() });
                }
            }));
        }
        let nclear = if miri { 1 } else { 1 + r.usize(2) };
        for _ in 0..nclear {
            let b = bucket.clone();
            let t = table.clone();
            let sad = seen_after_drop.clone();
            let del = delivered.clone();
            let rounds = if miri { 3 } else { 8 };
            hs.push(std::thread::spawn(move || {
                for _ in 0..rounds {
                    b.clear_with(|s| {
                        for tok in s {
                            if t[tok.id].load(Ordering::SeqCst) != 0 {
                                sad.fetch_add(1, Ordering::SeqCst);
                            }
                            del.fetch_add(1, Ordering::SeqCst);
                        }
                    });
                    b.data_with(|s| {
                        for tok in s {
                            if t[tok.id].load(Ordering::SeqCst) != 0 {
                                sad.fetch_add(1, Ordering::SeqCst);
                            }
                        }
                    });
                    std::thread::yield_now();
                }
            }));
        }
        for h in hs {
            h.join().unwrap();
        }
        bucket.clear_with(|s| {
            for tok in s {
                if table[tok.id].load(Ordering::SeqCst) != 0 {
                    seen_after_drop.fetch_add(1, Ordering::SeqCst);
                }
                delivered.fetch_add(1, Ordering::SeqCst);
            }
        });
        drop(bucket);
        // flush epoch garbage: pin/flush repeatedly from this thread
        let twice: usize = table.iter().filter(|c| c.load(Ordering::SeqCst) > 1).count();
        rep.case(mix(total as u64, r.next_u64()), true);
        if twice > 0 {
            rep.violation("C05:element-dropped-twice", jo! {"what" => "an element's destructor ran more than once", "count" => twice, "pushers" => np, "per_pusher" => per});
        }
        if seen_after_drop.load(Ordering::SeqCst) > 0 {
            rep.violation("C05:element-observed-after-drop", jo! {"what" => "a read callback observed an element whose destructor had already run", "count" => seen_after_drop.load(Ordering::SeqCst)});
        }
        if delivered.load(Ordering::SeqCst) != total {
            rep.violation("C05:lost-value", jo! {"what" => "drop-counted elements: delivered != pushed at quiescence", "delivered" => delivered.load(Ordering::SeqCst), "pushed" => total, "leg" => "drops"});
        }
        if rep.want_sample() {
            let dropped_once: usize = table.iter().filter(|c| c.load(Ordering::SeqCst) == 1).count();
            rep.sample(jo! {"pushers" => np, "per_pusher" => per, "delivered" => delivered.load(Ordering::SeqCst), "destructors_run_so_far" => dropped_once});
        }
    }
    rep
}
