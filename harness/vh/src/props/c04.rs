//! C04 — counter / gauge / histogram handles apply every update exactly once.
use crate::doubles::{self, Kind, LogRecorder, Op};
use crate::lin::{self, HOp, LinResult};
use crate::rt::{self, mix, Args, Report, Rng, J};
use metrics::atomics::AtomicU64;
use metrics::{Counter, Gauge, GaugeValue, Histogram, IntoF64, Key, Level, Metadata, Recorder};
use std::sync::atomic::{AtomicU64 as StdAtomicU64, Ordering};
use std::sync::Arc;
use std::time::Duration;

pub fn run(a: &Args) -> Option<Report> {
    match a.leg.as_str() {
        "native" | "miri" | "tsan" => {}
        _ => return None,
    }
    rt::quiet_panics();
    let mut rep = Report::new("C04", &a.leg, a.seed);
    let mut r = Rng::new(a.shard_seed());
    let miri = cfg!(miri);
    counters(&mut rep, &mut r, a, miri);
    gauges_commutative(&mut rep, &mut r, a, miri);
    gauges_linearizable(&mut rep, &mut r, a, miri);
    histograms(&mut rep, &mut r, a, miri);
    generational(&mut rep, &mut r, a, miri);
    record_across_block_handover(&mut rep, &mut r, a, miri);
    values_and_noop(&mut rep, &mut r);
    Some(rep)
}

fn counters(rep: &mut Report, r: &mut Rng, a: &Args, miri: bool) {
    let rounds = if miri { 2 } else { a.budget(60, 6000) };
    for _ in 0..rounds {
        let nthreads = if miri { 3 } else { 2 + r.usize(14) };
        let per = if miri { 20 } else { *r.pick(&[50usize, 2000, 20_000]) };
        let mode = r.below(3); // 0 increments only, 1 absolutes (+ small increments), 2 absolutes only with monotone readers
        let storage = Arc::new(AtomicU64::new(if mode == 0 { *r.pick(&[0u64, u64::MAX - 5, 1 << 63]) } else { 0 }));
        let start = storage.load(Ordering::SeqCst);
        let handle = Counter::from_arc(storage.clone());
        let mut hs = Vec::new();
        for t in 0..nthreads {
            let h = handle.clone();
            let st = storage.clone();
            let seed = r.next_u64();
            hs.push(std::thread::spawn(move || {
                let mut r = Rng::new(seed);
                let mut sum = 0u64;
                let mut max_abs = 0u64;
                let mut decreased: Option<(u64, u64)> = None;
                let mut last_seen = 0u64;
                let h2 = h.clone();
                for i in 0..per {
                    let hh = if i % 2 == 0 { &h } else { &h2 };
                    match mode {
                        0 => {
                            let v = *r.pick(&[0u64, 1, 2, 1 << 40, u64::MAX, u64::MAX / 3]);
                            hh.increment(v);
                            sum = sum.wrapping_add(v);
                        }
                        1 => {
                            if r.chance(1, 2) {
                                let v = r.below(1 << 40) + (t as u64);
                                hh.absolute(v);
                                max_abs = max_abs.max(v);
                            } else {
                                hh.increment(1);
                                sum += 1;
                            }
                        }
                        _ => {
                            let v = (i as u64) * 16 + t as u64 + r.below(4);
                            hh.absolute(v);
                            max_abs = max_abs.max(v);
                        }
                    }
                    if mode != 0 {
                        let now = st.load(Ordering::SeqCst);
                        if now < last_seen {
                            decreased = Some((last_seen, now));
                        }
                        last_seen = now;
                    }
                }
                (sum, max_abs, decreased)
            }));
        }
        let mut total = 0u64;
        let mut max_abs = 0u64;
        let mut decreased = None;
        for h in hs {
            let (s, m, d) = h.join().unwrap();
            total = total.wrapping_add(s);
            max_abs = max_abs.max(m);
            if d.is_some() {
                decreased = d;
            }
        }
        let fin = storage.load(Ordering::SeqCst);
        rep.case(mix(mix(mode, nthreads as u64), mix(per as u64, fin)), true);
        let desc = jo! {"mode" => mode, "threads" => nthreads, "ops_per_thread" => per, "start" => start, "final" => fin};
        match mode {
            0 => {
                if fin != start.wrapping_add(total) {
                    rep.violation("C04:counter-increments-lost", jo! {"what" => "final counter != start + sum of increments (mod 2^64)", "expected" => start.wrapping_add(total), "run" => desc.clone()});
                }
            }
            _ => {
                if fin < max_abs {
                    rep.violation("C04:counter-below-largest-absolute", jo! {"what" => "counter ended lower than the largest absolute value given", "largest_absolute" => max_abs, "run" => desc.clone()});
                }
                if let Some((a1, b1)) = decreased {
                    rep.violation("C04:counter-decreased", jo! {"what" => "counter decreased between two reads", "before" => a1, "after" => b1, "run" => desc.clone()});
                }
                if mode == 1 && fin > max_abs.saturating_add(total) {
                    rep.violation("C04:counter-too-high", jo! {"what" => "counter exceeds largest absolute + all increments", "run" => desc.clone()});
                }
            }
        }
        if rep.want_sample() {
            rep.sample(jo! {"counter_run" => desc});
        }
    }
}

fn gauges_commutative(rep: &mut Report, r: &mut Rng, a: &Args, miri: bool) {
    let rounds = if miri { 2 } else { a.budget(40, 4000) };
    for _ in 0..rounds {
        let nthreads = if miri { 3 } else { 2 + r.usize(14) };
        let per = if miri { 20 } else { *r.pick(&[50usize, 2000, 20_000]) };
        let storage = Arc::new(AtomicU64::new(0f64.to_bits()));
        let handle = Gauge::from_arc(storage.clone());
        let mut hs = Vec::new();
        for _ in 0..nthreads {
            let h = handle.clone();
            let seed = r.next_u64();
            hs.push(std::thread::spawn(move || {
                let mut r = Rng::new(seed);
                let mut net = 0i64;
                for _ in 0..per {
                    let v = r.below(1 << 20) as i64;
                    if r.chance(1, 2) {
                        h.increment(v as f64);
                        net += v;
                    } else {
                        h.decrement(v as u32);
                        net -= v;
                    }
                }
                net
            }));
        }
        let mut net = 0i64;
        for h in hs {
            net += h.join().unwrap();
        }
        let fin = f64::from_bits(storage.load(Ordering::SeqCst));
        rep.case(mix(mix(77, nthreads as u64), mix(per as u64, fin.to_bits())), true);
        if fin != net as f64 {
            rep.violation("C04:gauge-update-lost", jo! {"what" => "gauge final value != exact sum of increments minus decrements (all exactly representable)", "final" => fin, "expected" => net as f64, "threads" => nthreads, "ops_per_thread" => per});
        }
    }
}

#[derive(Clone, Debug)]
enum GOp {
    Set(u64),
    Inc(i64),
    Dec(i64),
    Read(u64), // observed bits
}

fn gauges_linearizable(rep: &mut Report, r: &mut Rng, a: &Args, miri: bool) {
    let rounds = if miri { 3 } else { a.budget(4000, 400_000) };
    let stamp = Arc::new(StdAtomicU64::new(1));
    let mut budget_hits = 0u64;
    for _ in 0..rounds {
        let nthreads = 2 + r.usize(3);
        let per = 2 + r.usize(3);
        let storage = Arc::new(AtomicU64::new(0f64.to_bits()));
        let handle = Gauge::from_arc(storage.clone());
        let mut hs = Vec::new();
        for t in 0..nthreads {
            let h = handle.clone();
            let st = storage.clone();
            let seed = r.next_u64();
            let stamp = stamp.clone();
            hs.push(std::thread::spawn(move || {
                let mut r = Rng::new(seed);
                let mut out = Vec::new();
                for i in 0..per {
                    let c = r.below(4);
                    let call = stamp.fetch_add(1, Ordering::SeqCst);
                    let op = match c {
                        0 => {
                            let v = 1000.0 * (t as f64 + 1.0) + i as f64; // unique set values
                            h.set(v);
                            GOp::Set(v.to_bits())
                        }
                        1 => {
                            let d = 1 + r.below(7) as i64;
                            h.increment(d as f64);
                            GOp::Inc(d)
                        }
                        2 => {
                            let d = 1 + r.below(7) as i64;
                            h.decrement(d as f64);
                            GOp::Dec(d)
                        }
                        _ => GOp::Read(st.load(Ordering::SeqCst)),
                    };
                    let ret = stamp.fetch_add(1, Ordering::SeqCst);
                    out.push(HOp { call, ret, op });
                }
                out
            }));
        }
        let mut ops: Vec<HOp<GOp>> = Vec::new();
        for h in hs {
            ops.extend(h.join().unwrap());
        }
        let fin = storage.load(Ordering::SeqCst);
        let call = stamp.fetch_add(1, Ordering::SeqCst);
        let ret = stamp.fetch_add(1, Ordering::SeqCst);
        ops.push(HOp { call, ret, op: GOp::Read(fin) });
        let step = |s: &u64, o: &GOp| -> Option<u64> {
            let cur = f64::from_bits(*s);
            match o {
                GOp::Set(v) => Some(*v),
                GOp::Inc(d) => Some((cur + *d as f64).to_bits()),
                GOp::Dec(d) => Some((cur - *d as f64).to_bits()),
                GOp::Read(b) => {
                    if *b == *s {
                        Some(*s)
                    } else {
                        None
                    }
                }
            }
        };
        let mut h = 0u64;
        for o in &ops {
            h = mix(h, o.call ^ o.ret << 20 ^ match &o.op { GOp::Set(v) => *v, GOp::Inc(d) => *d as u64 + 1, GOp::Dec(d) => *d as u64 + 100, GOp::Read(b) => *b ^ 7 });
        }
        match lin::check(0f64.to_bits(), &ops, &step, 200_000) {
            LinResult::Linearizable => rep.case(h, true),
            LinResult::Budget => {
                budget_hits += 1;
                rep.inconclusive("gauge linearizability search budget");
            }
            LinResult::NotLinearizable => {
                rep.case(h, true);
                rep.violation(
                    "C04:gauge-history-not-linearizable",
                    jo! {"what" => "no sequential order of the gauge operations explains the observed reads (an update was lost or not applied atomically)",
                    "history" => J::A(ops.iter().map(|o| J::s(format!("[{}..{}] {:?}", o.call, o.ret, match &o.op { GOp::Read(b) => format!("read={}", f64::from_bits(*b)), GOp::Set(b) => format!("set({})", f64::from_bits(*b)), x => format!("{:?}", x) }))).collect())},
                );
            }
        }
        if rep.want_sample() {
            rep.sample(jo! {"gauge_history" => J::A(ops.iter().map(|o| J::s(format!("[{}..{}] {:?}", o.call, o.ret, o.op))).collect())});
        }
    }
    rep.count("lin_budget_hits", budget_hits);
}

fn histograms(rep: &mut Report, r: &mut Rng, a: &Args, miri: bool) {
    let rounds = if miri { 10 } else { a.budget(3000, 300_000) };
    let md = Metadata::new("t", Level::INFO, None);
    for _ in 0..rounds {
        let log = doubles::new_log();
        let mut rec = LogRecorder::new(1, &log);
        rec.record_many_override = r.chance(1, 2);
        let h: Histogram = rec.register_histogram(&Key::from_name("h"), &md);
        let _ = doubles::take_log(&log);
        let h2 = h.clone();
        let n = *r.pick(&[0usize, 0, 1, 2, 3, 7, 64]);
        let which = r.below(6);
        let (expected_v, expected_n): (f64, usize) = match which {
            0 => {
                let v = *r.pick(&[0.0f64, -0.0, 1.5, f64::NAN, f64::INFINITY, f64::NEG_INFINITY, f64::MAX, f64::MIN_POSITIVE]);
                h.record_many(v, n);
                (v, n)
            }
            1 => {
                let v = *r.pick(&[0.25f64, f64::NAN, -3.0]);
                h2.record(v);
                (v, 1)
            }
            2 => {
                let d = Duration::new(r.below(5), r.below(1_000_000_000) as u32);
                h.record_many(d, n);
                (d.as_secs_f64(), n)
            }
            3 => {
                let v = *r.pick(&[i32::MIN, -1, 0, 7, i32::MAX]);
                h.record_many(v, n);
                (v as f64, n)
            }
            4 => {
                let v = *r.pick(&[0u32, 9, u32::MAX]);
                h2.record_many(v, n);
                (v as f64, n)
            }
            _ => {
                let v = *r.pick(&[0.5f32, f32::MAX, -1.25]);
                h.record(v);
                (v as f64, 1)
            }
        };
        let got = doubles::take_log(&log);
        let mut delivered = 0usize;
        let mut ok = true;
        for x in &got {
            match &x.op {
                Op::HistRecord { v, .. } => {
                    delivered += 1;
                    ok &= *v == expected_v.to_bits() || (expected_v.is_nan() && f64::from_bits(*v).is_nan());
                }
                Op::HistRecordMany { v, n: nn, .. } => {
                    delivered += *nn;
                    ok &= *v == expected_v.to_bits() || (expected_v.is_nan() && f64::from_bits(*v).is_nan());
                }
                _ => ok = false,
            }
        }
        rep.case(mix(mix(which, n as u64), expected_v.to_bits() ^ rec.record_many_override as u64), true);
        if delivered != expected_n || !ok {
            rep.violation(
                if delivered != expected_n { "C04:histogram-wrong-delivery-count" } else { "C04:histogram-value-altered" },
                jo! {"what" => "record/record_many did not deliver the (converted) value exactly n times", "form" => which, "n" => expected_n, "delivered" => delivered,
                "expected_value" => expected_v, "override_record_many" => rec.record_many_override, "log" => J::A(got.iter().map(|x| x.op.to_json()).collect())},
            );
        }
    }
    let _ = Kind::Counter;
}

/// Handles backed by the generational storage the Prometheus exporter uses (`Generational<Arc<AtomicU64>>`): several
/// threads update clones of one handle at the same time; every update is applied exactly once, also batches
/// (`record_many` incl. a count of 0) recorded through the generational histogram handle.
fn generational(rep: &mut Report, r: &mut Rng, a: &Args, miri: bool) {
    use metrics_util::registry::{AtomicStorage, GenerationalStorage, Storage};
    use metrics::{Key, HistogramFn};
    let rounds = if miri { 1 } else { a.budget(20, 2000) };
    for _ in 0..rounds {
        let st = GenerationalStorage::new(AtomicStorage);
        let key = Key::from_name("g");
        let gc = st.counter(&key);
        let gg = st.gauge(&key);
        let gh = st.histogram(&key);
        let (c, g, h): (Counter, Gauge, Histogram) = (gc.clone().into(), gg.clone().into(), gh.clone().into());
        let nthreads = if miri { 2 } else { 2 + r.usize(6) };
        let per = if miri { 10 } else { *r.pick(&[200usize, 5000, 40_000]) };
        let hs: Vec<_> = (0..nthreads)
            .map(|_| {
                let (c, g, h) = (c.clone(), g.clone(), h.clone());
                std::thread::spawn(move || {
                    for i in 0..per {
                        c.increment(3);
                        g.increment(2.0);
                        if i % 4 == 0 {
                            g.decrement(-1.0); // a negative amount: adds 1
                        }
                        if i % 64 == 0 {
                            h.record(1.0);
                        }
                    }
                })
            })
            .collect();
        for t in hs {
            let _ = t.join();
        }
        // batches through the generational histogram handle
        h.record_many(2.0, 3);
        h.record_many(5.0, 0);
        gh.record_many(7.0, 0);
        gh.record_many(7.0, 2);
        let n = (nthreads * per) as u64;
        let quarter = (nthreads * ((per + 3) / 4)) as f64;
        let cv = gc.get_inner().load(Ordering::SeqCst);
        let gv = f64::from_bits(gg.get_inner().load(Ordering::SeqCst));
        let hv = gh.get_inner().data();
        let exp_h = nthreads * ((per + 63) / 64) + 3 + 2;
        rep.case(mix(n, nthreads as u64 + 900), true);
        if cv != 3 * n {
            rep.violation("C04:counter-increments-not-exactly-once:generational-handle", jo! {"what" => "concurrent increments through clones of one generational counter handle do not add up", "threads" => nthreads, "increments_each" => per, "expected" => 3 * n, "got" => cv});
        }
        if gv != 2.0 * n as f64 + quarter {
            rep.violation("C04:gauge-updates-not-exactly-once:generational-handle", jo! {"what" => "concurrent increment(2.0) / decrement(-1.0) through clones of one generational gauge handle do not add up", "threads" => nthreads, "ops_each" => per, "expected" => 2.0 * n as f64 + quarter, "got" => gv});
        }
        if hv.len() != exp_h {
            rep.violation("C04:histogram-samples-not-exactly-once:generational-handle", jo! {"what" => "samples recorded through a generational histogram handle (record, record_many incl. count 0) are not each present exactly once", "expected" => exp_h, "got" => hv.len()});
        }
    }
}

/// A record() that has to start a new storage block is held right after installing it while clones of the handle on
/// another thread fill that block completely; the held record must still be delivered exactly once.
fn record_across_block_handover(rep: &mut Report, r: &mut Rng, a: &Args, miri: bool) {
    use crate::rt::{Ctx, Policy, Rule};
    use metrics_util::storage::AtomicBucket;
    if miri {
        return;
    }
    let trials = a.budget(40, 2000);
    for _ in 0..trials {
        let bucket: Arc<AtomicBucket<f64>> = Arc::new(AtomicBucket::new());
        let h = Histogram::from_arc(bucket.clone());
        let prefill = 64 * (1 + r.usize(2)); // whole blocks: the next record starts a new one
        for i in 0..prefill {
            h.record(i as f64);
        }
        let others = 64 + r.usize(80);
        let rules = vec![Rule::new(0, "bucket.push.after_block_cas", 1, 1, "@done", 1), Rule::new(1, "@start", 1, 0, "bucket.push.after_block_cas", 1)];
        let ctx = Ctx::new(Policy::Gate(rules), false);
        let h0 = h.clone();
        let t0 = rt::spawn_role(&ctx, 0, 1, move || h0.record(4242.5));
        let h1 = h.clone();
        let t1 = rt::spawn_role(&ctx, 1, 2, move || {
            for i in 0..others {
                h1.record(10_000.0 + i as f64);
            }
        });
        let _ = t0.join();
        let _ = t1.join();
        ctx.abort.store(true, Ordering::SeqCst);
        let data = bucket.data();
        let marked = data.iter().filter(|v| **v == 4242.5).count();
        let gated = ctx.unsat.load(Ordering::SeqCst) == 0 && ctx.expired.load(Ordering::SeqCst) == 0;
        rep.case(mix(prefill as u64, others as u64 + 5000), gated);
        if gated {
            rep.count("window:record-held-after-installing-a-new-block", 1);
        }
        if marked != 1 || data.len() != prefill + others + 1 {
            rep.violation("C04:histogram-sample-not-delivered-exactly-once:block-handover", jo! {"what" => "a record() through a histogram handle, overtaken by a full block's worth of records from clones of the handle right after it had installed a new storage block, was not delivered exactly once", "copies_of_the_held_sample" => marked, "samples_stored" => data.len(), "samples_recorded" => prefill + others + 1, "schedule_was_forced" => gated});
        }
    }
}

fn values_and_noop(rep: &mut Report, r: &mut Rng) {
    // no handle operation panics for any value; no-op handles have no effect
    let vals_f = [0.0f64, -0.0, f64::NAN, f64::INFINITY, f64::NEG_INFINITY, f64::MAX, f64::MIN, 1e-320, 1.0];
    let vals_u = [0u64, 1, u64::MAX, u64::MAX - 1, 1 << 63];
    for _ in 0..200 {
        let st = Arc::new(AtomicU64::new(*r.pick(&vals_u)));
        let c = Counter::from_arc(st.clone());
        let g = Gauge::from_arc(st.clone());
        let f = *r.pick(&vals_f);
        let u = *r.pick(&vals_u);
        let res = rt::catch(|| {
            c.increment(u);
            c.absolute(u);
            g.increment(f);
            g.decrement(f);
            g.set(f);
            g.increment(Duration::from_secs(u % 1000));
            Counter::noop().increment(u);
            Counter::noop().absolute(u);
            Gauge::noop().set(f);
            Gauge::noop().increment(f);
            Gauge::noop().decrement(f);
            Histogram::noop().record(f);
            Histogram::noop().record_many(f, (u % 1_000_000) as usize);
            Histogram::noop().record_many(f, usize::MAX);
        });
        rep.case(mix(u, f.to_bits()), true);
        if let Err(m) = res {
            rep.violation("C04:handle-operation-panicked", jo! {"what" => "a handle operation panicked", "panic" => m, "f" => f, "u" => u});
        }
        let after_set = f64::from_bits(st.load(Ordering::SeqCst));
        let _ = after_set;
    }
    // set leaves exactly the value given (bit for bit), whatever the gauge held before — also when the two compare equal
    // as floats (signed zeroes) or do not compare at all (NaN payloads); GaugeValue::update_value semantics
    let nan_payload = f64::from_bits(0x7ff8_0000_0000_1234);
    for prev in vals_f.iter().cloned().chain([7.0, nan_payload]) {
        for f in vals_f.iter().cloned().chain([nan_payload]) {
            let st = Arc::new(AtomicU64::new(prev.to_bits()));
            let g = Gauge::from_arc(st.clone());
            g.set(f);
            rep.case(mix(prev.to_bits(), f.to_bits()), true);
            if st.load(Ordering::SeqCst) != f.to_bits() {
                rep.violation("C04:gauge-set-altered", jo! {"what" => "set(v) did not leave exactly v (compared bit for bit)", "v" => format!("{:?} (bits {:#018x})", f, f.to_bits()), "held_before" => format!("{:?} (bits {:#018x})", prev, prev.to_bits()), "left" => format!("{:#018x}", st.load(Ordering::SeqCst))});
            }
            // reached zero by arithmetic, then set to the zero of the other sign
            let st2 = Arc::new(AtomicU64::new(2.5f64.to_bits()));
            let g2 = Gauge::from_arc(st2.clone());
            g2.decrement(2.5);
            g2.set(f);
            if st2.load(Ordering::SeqCst) != f.to_bits() {
                rep.violation("C04:gauge-set-altered", jo! {"what" => "set(v) after the gauge was driven to zero by decrement did not leave exactly v", "v" => format!("{:?} (bits {:#018x})", f, f.to_bits())});
            }
        }
    }
    for f in vals_f {
        let ok = GaugeValue::Absolute(f).update_value(3.0).to_bits() == f.to_bits()
            && (GaugeValue::Increment(2.0).update_value(3.0) == 5.0)
            && (GaugeValue::Decrement(2.0).update_value(3.0) == 1.0);
        if !ok {
            rep.violation("C04:gaugevalue-semantics", jo! {"what" => "GaugeValue::update_value disagrees with set/inc/dec semantics", "v" => f});
        }
    }
    // handles whose handler is itself an Arc (forwarding impls for Arc<T>, as generational / layered storages use):
    // every operation must arrive unchanged, exactly once
    for _ in 0..200 {
        let inner = Arc::new(AtomicU64::new(0f64.to_bits()));
        let g = Gauge::from_arc(Arc::new(inner.clone()));
        let mut model = 0.0f64;
        let mut hist = Vec::new();
        for _ in 0..(1 + r.usize(8)) {
            let v = *r.pick(&[0.5f64, 1.0, 2.0, 8.0, 64.0, -0.5, -4.0]);
            match r.below(3) {
                0 => {
                    g.increment(v);
                    model += v;
                    hist.push(format!("increment({})", v));
                }
                1 => {
                    g.decrement(v);
                    model -= v;
                    hist.push(format!("decrement({})", v));
                }
                _ => {
                    g.set(v);
                    model = v;
                    hist.push(format!("set({})", v));
                }
            }
        }
        let got = f64::from_bits(inner.load(Ordering::SeqCst));
        rep.case(mix(model.to_bits(), hist.len() as u64 + 77), true);
        if got != model {
            rep.violation("C04:gauge-op-altered:through-arc-forwarding", jo! {"what" => "a gauge handle whose handler is an Arc<Arc<AtomicU64>> did not apply the operations as given", "history" => J::A(hist.iter().map(|h| J::s(h.clone())).collect()), "expected" => model, "got" => got});
        }
        let cinner = Arc::new(AtomicU64::new(0));
        let c = Counter::from_arc(Arc::new(cinner.clone()));
        let mut cm = 0u64;
        for _ in 0..(1 + r.usize(6)) {
            let v = r.below(50);
            if r.chance(1, 3) {
                c.absolute(v);
                cm = cm.max(v);
            } else {
                c.increment(v);
                cm += v;
            }
        }
        if cinner.load(Ordering::SeqCst) != cm {
            rep.violation("C04:counter-op-altered:through-arc-forwarding", jo! {"what" => "a counter handle whose handler is an Arc<Arc<AtomicU64>> did not apply the operations as given", "expected" => cm, "got" => cinner.load(Ordering::SeqCst)});
        }
    }
    // IntoF64 table
    let conv_ok = 5u8.into_f64() == 5.0
        && (-5i8).into_f64() == -5.0
        && u16::MAX.into_f64() == 65535.0
        && i16::MIN.into_f64() == -32768.0
        && u32::MAX.into_f64() == 4294967295.0
        && i32::MIN.into_f64() == -2147483648.0
        && 0.5f32.into_f64() == 0.5
        && Duration::from_millis(1500).into_f64() == 1.5;
    if !conv_ok {
        rep.violation("C04:intof64-conversion", jo! {"what" => "IntoF64 conversion differs from the documented one"});
    }
}
