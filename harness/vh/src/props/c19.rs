//! C19 — debugging snapshots show every registered metric with its true current state.
use crate::doubles::KeyDesc;
use crate::props::c03;
use crate::rt::{self, fnv, mix, Args, Report, Rng, J};
use metrics::{Key, KeyName, Level, Metadata, Recorder, SharedString, Unit};
use metrics_util::debugging::{DebugValue, DebuggingRecorder};
use metrics_util::MetricKind;
use std::collections::{BTreeMap, HashMap, HashSet};
use std::sync::atomic::{AtomicU64, Ordering};
use std::sync::Arc;

static MD: Metadata<'static> = Metadata::new("c19", Level::INFO, None);

const NAMES: &[&str] = &["a", "b", "ab", "é", ""];
const LK: &[&str] = &["k", "l", "m"];
const LV: &[&str] = &["", "x", "y"];
const UNITS: &[Option<Unit>] = &[None, None, Some(Unit::Bytes), Some(Unit::Seconds), Some(Unit::Count)];

fn gen_desc(r: &mut Rng) -> KeyDesc {
    let n = r.usize(3);
    let mut ks = LK.to_vec();
    r.shuffle(&mut ks);
    let mut d = KeyDesc { name: r.pick(NAMES).to_string(), labels: (0..n).map(|i| (ks[i].to_string(), r.pick(LV).to_string())).collect() };
    if n == 2 && r.chance(1, 4) && d.labels[0].1 != d.labels[1].1 {
        // two labels sharing a name (different values): equal keys may list them in either order
        d.labels[1].0 = d.labels[0].0.clone();
    }
    d
}

/// Several debugging recorders installed as thread-local recorders with guards dropped in any order: each recorder's
/// snapshot must list exactly the metrics emitted while it was the innermost live installation.
fn run_local_guards(a: &Args, rep: &mut Report, r: &mut Rng) {
    let n = if cfg!(miri) { 2 } else { a.budget(400, 40_000) };
    for _ in 0..n {
        let recs: Vec<DebuggingRecorder> = (0..3).map(|_| DebuggingRecorder::new()).collect();
        let snaps: Vec<_> = recs.iter().map(|x| x.snapshotter()).collect();
        let mut expect: Vec<Vec<String>> = vec![Vec::new(); 3];
        let mut trace: Vec<String> = Vec::new();
        let mut nontrivial = false;
        {
            let mut guards: Vec<Option<metrics::LocalRecorderGuard<'_>>> = Vec::new();
            let mut live: Vec<(usize, usize)> = Vec::new(); // (guard index, recorder) in installation order
            let steps = 4 + r.usize(14);
            for step in 0..steps {
                match r.below(5) {
                    0 | 1 if live.len() < 5 => {
                        let i = r.usize(3);
                        guards.push(Some(metrics::set_default_local_recorder(&recs[i])));
                        live.push((guards.len() - 1, i));
                        trace.push(format!("install rec{}", i));
                    }
                    2 if !live.is_empty() => {
                        let k = r.usize(live.len());
                        if k + 1 != live.len() {
                            nontrivial = true;
                        }
                        let (gi, ri) = live.remove(k);
                        guards[gi] = None;
                        trace.push(format!("drop guard of install #{} (rec{}){}", gi, ri, if k == live.len() { "" } else { " — not the innermost" }));
                    }
                    _ => {
                        let name = format!("m{}", step);
                        metrics::counter!(name.clone()).increment(1);
                        if let Some((_, ri)) = live.last() {
                            expect[*ri].push(name.clone());
                        }
                        trace.push(format!("emit {} -> {}", name, live.last().map(|x| format!("rec{}", x.1)).unwrap_or("no recorder".into())));
                    }
                }
            }
            // end every remaining scope in a random order, then emit once more: nobody may see it
            while !live.is_empty() {
                let k = r.usize(live.len());
                let (gi, _) = live.remove(k);
                guards[gi] = None;
            }
            metrics::counter!("after_all_scopes_ended").increment(1);
        }
        let mut hcase = 0u64;
        for (i, sn) in snaps.iter().enumerate() {
            let mut got: Vec<String> = sn.snapshot().into_vec().into_iter().map(|(ck, _, _, _)| ck.key().name().to_string()).collect();
            got.sort();
            let mut exp = expect[i].clone();
            exp.sort();
            exp.dedup();
            hcase = mix(hcase, fnv(format!("{:?}", got).as_bytes()));
            if got != exp {
                rep.violation("C19:local-recorder-shows-foreign-metrics", jo! {"what" => "a debugging recorder installed as a thread-local recorder does not list exactly the metrics emitted while it was the innermost live installation", "recorder" => i, "listed" => format!("{:?}", got), "expected" => format!("{:?}", exp), "program" => J::A(trace.iter().map(|t| J::s(t.clone())).collect())});
                break;
            }
        }
        rep.case(hcase, nontrivial);
    }
}

fn kind_of(k: u8) -> MetricKind {
    match k {
        0 => MetricKind::Counter,
        1 => MetricKind::Gauge,
        _ => MetricKind::Histogram,
    }
}
fn kind_num(k: MetricKind) -> u8 {
    match k {
        MetricKind::Counter => 0,
        MetricKind::Gauge => 1,
        MetricKind::Histogram => 2,
    }
}

pub fn run(a: &Args) -> Option<Report> {
    match a.leg.as_str() {
        "seq" | "miri-seq" => Some(run_seq(a)),
        "concurrent" | "concurrent-hooks" | "miri" => Some(run_concurrent(a)),
        _ => None,
    }
}

#[derive(Clone, Debug, PartialEq)]
enum MV {
    C(u64),
    G(u64),
    H(Vec<u64>),
}

fn run_seq(a: &Args) -> Report {
    let mut rep = Report::new("C19", &a.leg, a.seed);
    let mut r = Rng::new(a.shard_seed());
    let miri = cfg!(miri);
    run_local_guards(a, &mut rep, &mut r);
    let n = if miri { 3 } else { a.budget(5000, 500_000) };
    for _ in 0..n {
        let rec = DebuggingRecorder::new();
        let snap = rec.snapshotter();
        // a second, unrelated recorder: its metrics must never show up
        let other = DebuggingRecorder::new();
        let other_snap = other.snapshotter();
        let nbase = 1 + r.usize(4);
        let bases: Vec<KeyDesc> = (0..nbase).map(|_| gen_desc(&mut r)).collect();
        // model
        let mut order: Vec<(u8, KeyDesc)> = Vec::new();
        let mut values: BTreeMap<(u8, KeyDesc), MV> = BTreeMap::new();
        let mut meta: HashMap<(u8, String), (Option<Unit>, String)> = HashMap::new();
        let steps = if miri { 12 } else { 5 + r.usize(50) };
        let mut h = nbase as u64;
        let mut trace: Vec<String> = Vec::new();
        let mut failed = false;
        for step in 0..=steps {
            if failed {
                break;
            }
            let c = if step == steps { 9 } else { r.below(10) };
            h = mix(h, c);
            match c {
                0..=4 => {
                    let kind = r.below(3) as u8;
                    let mut d = r.pick(&bases).clone();
                    r.shuffle(&mut d.labels);
                    let canon = d.sorted();
                    let path = r.below(c03::NPATHS);
                    let key = c03::build(&mut r, &d, path);
                    if !order.contains(&(kind, canon.clone())) {
                        order.push((kind, canon.clone()));
                    }
                    let use_local = r.chance(1, 3);
                    match kind {
                        0 => {
                            let v = *r.pick(&[0u64, 1, 5, u64::MAX]);
                            let abs = r.chance(1, 4);
                            let hnd = if use_local { metrics::with_local_recorder(&rec, || metrics::counter!(d.name.clone(), key.labels().cloned().collect::<Vec<_>>())) } else { rec.register_counter(&key, &MD) };
                            let e = values.entry((kind, canon)).or_insert(MV::C(0));
                            if let MV::C(cur) = e {
                                if abs {
                                    hnd.absolute(v);
                                    *cur = (*cur).max(v);
                                } else {
                                    hnd.increment(v);
                                    *cur = cur.wrapping_add(v);
                                }
                            }
                            trace.push(format!("counter {:?} (path {}) {} {}", d, path, if abs { "absolute" } else { "+=" }, v));
                        }
                        1 => {
                            let v = *r.pick(&[0.0f64, 1.5, -2.0, f64::NAN, f64::INFINITY]);
                            let hnd = rec.register_gauge(&key, &MD);
                            hnd.set(v);
                            values.insert((kind, canon), MV::G(v.to_bits()));
                            trace.push(format!("gauge {:?} set {:?}", d, v));
                        }
                        _ => {
                            let hnd = rec.register_histogram(&key, &MD);
                            let k = *r.pick(&[0usize, 1, 3, 70]);
                            let e = values.entry((kind, canon)).or_insert(MV::H(vec![]));
                            for i in 0..k {
                                let v = (step * 1000 + i) as f64 + 0.25;
                                hnd.record(v);
                                if let MV::H(vs) = e {
                                    vs.push(v.to_bits());
                                }
                            }
                            trace.push(format!("histogram {:?} record x{}", d, k));
                        }
                    }
                    // noise into the unrelated recorder
                    if r.chance(1, 4) {
                        other.register_counter(&Key::from_name("other_only"), &MD).increment(1);
                    }
                }
                5 | 6 | 7 => {
                    let kind = r.below(3) as u8;
                    let name = r.pick(NAMES).to_string();
                    let unit = *r.pick(UNITS);
                    let desc = r.pick(&["", "d1", "d2", "long description"]).to_string();
                    let (kn, ds) = (KeyName::from(name.clone()), SharedString::from(desc.clone()));
                    match kind {
                        0 => rec.describe_counter(kn, unit, ds),
                        1 => rec.describe_gauge(kn, unit, ds),
                        _ => rec.describe_histogram(kn, unit, ds),
                    }
                    let e = meta.entry((kind, name.clone())).or_insert((None, String::new()));
                    if unit.is_some() {
                        e.0 = unit;
                    }
                    e.1 = desc.clone();
                    trace.push(format!("describe kind{} {:?} unit={:?} {:?}", kind, name, unit, desc));
                }
                _ => {
                    trace.push("snapshot".into());
                    let got = snap.snapshot().into_vec();
                    let mut exp: Vec<(u8, KeyDesc, Option<Unit>, Option<String>, MV)> = Vec::new();
                    for (kind, kd) in &order {
                        let m = meta.get(&(*kind, kd.name.clone()));
                        let v = values.get(&(*kind, kd.clone())).cloned().unwrap();
                        exp.push((*kind, kd.clone(), m.and_then(|x| x.0), m.map(|x| x.1.clone()), v));
                    }
                    let gotn: Vec<(u8, KeyDesc, Option<Unit>, Option<String>, MV)> = got
                        .iter()
                        .map(|(ck, u, d, v)| {
                            let mv = match v {
                                DebugValue::Counter(c) => MV::C(*c),
                                DebugValue::Gauge(g) => MV::G(g.into_inner().to_bits()),
                                DebugValue::Histogram(hs) => {
                                    let mut x: Vec<u64> = hs.iter().map(|f| f.into_inner().to_bits()).collect();
                                    x.sort();
                                    MV::H(x)
                                }
                            };
                            (kind_num(ck.kind()), KeyDesc::of(ck.key()).sorted(), *u, d.as_ref().map(|s| s.to_string()), mv)
                        })
                        .collect();
                    let expn: Vec<_> = exp
                        .into_iter()
                        .map(|(k, kd, u, d, v)| {
                            let v = match v {
                                MV::H(mut x) => {
                                    x.sort();
                                    MV::H(x)
                                }
                                MV::G(b) => MV::G(if f64::from_bits(b).is_nan() { f64::NAN.to_bits() } else { b }),
                                o => o,
                            };
                            (k, kd, u, d, v)
                        })
                        .collect();
                    let gotn: Vec<_> = gotn.into_iter().map(|(k, kd, u, d, v)| (k, kd, u, d, match v { MV::G(b) if f64::from_bits(b).is_nan() => MV::G(f64::NAN.to_bits()), o => o })).collect();
                    if gotn != expn {
                        // classify
                        let gk: Vec<(u8, KeyDesc)> = gotn.iter().map(|x| (x.0, x.1.clone())).collect();
                        let ek: Vec<(u8, KeyDesc)> = expn.iter().map(|x| (x.0, x.1.clone())).collect();
                        let sig = if gk != ek {
                            let gs: HashSet<_> = gk.iter().cloned().collect();
                            let es: HashSet<_> = ek.iter().cloned().collect();
                            if gs != es { "C19:entries-missing-or-extra" } else { "C19:order-not-first-registration" }
                        } else if gotn.iter().zip(expn.iter()).any(|(g, e)| g.4 != e.4) {
                            "C19:value-differs"
                        } else {
                            "C19:unit-or-description-differs"
                        };
                        let first_diff = gotn.iter().zip(expn.iter()).find(|(g, e)| g != e).map(|(g, e)| format!("got {:?} expected {:?}", g, e)).unwrap_or_else(|| format!("got {} entries expected {}", gotn.len(), expn.len()));
                        rep.violation(sig, jo! {"what" => "snapshot differs from the reference (registered metrics in first-registration order, current values, histogram values since the previous snapshot, latest unit/description)", "first_difference" => first_diff, "history_tail" => J::A(trace.iter().rev().take(14).rev().map(|s| J::s(s.clone())).collect())});
                        failed = true;
                    }
                    // histograms were drained
                    for v in values.values_mut() {
                        if let MV::H(x) = v {
                            x.clear();
                        }
                    }
                    // isolation
                    let o = other_snap.snapshot().into_vec();
                    if o.iter().any(|(ck, _, _, _)| ck.key().name() != "other_only") || got.iter().any(|(ck, _, _, _)| ck.key().name() == "other_only") {
                        rep.violation("C19:recorders-leak-into-each-other", jo! {"what" => "a recorder's snapshot shows another recorder's metrics"});
                        failed = true;
                    }
                }
            }
        }
        rep.case(mix(h, fnv(format!("{:?}", bases).as_bytes())), order.len() >= 2);
        if rep.want_sample() && trace.len() > 10 {
            rep.sample(jo! {"history" => J::A(trace.iter().take(16).map(|s| J::s(s.clone())).collect())});
        }
    }
    rep
}

/// Two threads drive one counter with absolute() at the same moment; once both calls returned the snapshot must show
/// the higher value (a counter's state after absolute(v) is at least v, whoever stored last).
fn absolute_race(a: &Args, rep: &mut Report) {
    if cfg!(miri) {
        return;
    }
    let rec = Arc::new(DebuggingRecorder::new());
    let snap = rec.snapshotter();
    let rounds = a.budget(40_000, 2_000_000);
    let round = Arc::new(AtomicU64::new(0));
    let done = Arc::new(AtomicU64::new(0));
    let mut hs = Vec::new();
    for t in 0..2u64 {
        let (rec, round, done) = (rec.clone(), round.clone(), done.clone());
        hs.push(std::thread::spawn(move || {
            let c = rec.register_counter(&Key::from_name("abs"), &MD);
            let mut k = 1u64;
            loop {
                let mut spins = 0u32;
                loop {
                    let cur = round.load(Ordering::Acquire);
                    if cur == u64::MAX {
                        return;
                    }
                    if cur >= k {
                        break;
                    }
                    spins += 1;
                    if spins % 2048 == 0 {
                        std::thread::yield_now();
                    }
                }
                c.absolute(if (k + t) % 2 == 0 { 2 * k } else { 2 * k - 1 });
                done.fetch_add(1, Ordering::AcqRel);
                k += 1;
            }
        }));
    }
    let mut bad: Vec<String> = Vec::new();
    let mut checked = 0u64;
    for k in 1..=rounds {
        round.store(k, Ordering::Release);
        let mut spins = 0u32;
        while done.load(Ordering::Acquire) < 2 * k {
            spins += 1;
            if spins % 2048 == 0 {
                std::thread::yield_now();
            }
        }
        if k % 4 == 0 || k < 64 {
            checked += 1;
            let shown = snap.snapshot().into_vec().into_iter().find_map(|(ck, _, _, v)| match v {
                DebugValue::Counter(c) if ck.key().name() == "abs" => Some(c),
                _ => None,
            });
            if shown != Some(2 * k) {
                bad.push(format!("round {}: absolute({}) and absolute({}) both returned, snapshot shows {:?}", k, 2 * k, 2 * k - 1, shown));
                if bad.len() >= 5 {
                    break;
                }
            }
        }
    }
    round.store(u64::MAX, Ordering::Release);
    for h in hs {
        let _ = h.join();
    }
    rep.count("absolute_race_rounds_snapshotted", checked);
    rep.case(mix(checked, 19), true);
    if !bad.is_empty() {
        rep.violation("C19:counter-below-completed-absolute", jo! {"what" => "after two concurrent absolute() calls returned, the snapshot shows less than the higher of the two values", "examples" => J::A(bad.into_iter().map(J::s).collect())});
    }
}

/// A lazily hashed static key (what the macros build) used for the first time by several threads at once: each
/// registers the counter and increments it once. The final snapshot must show every such counter with all increments.
fn first_use_race(a: &Args, rep: &mut Report) {
    if cfg!(miri) {
        return;
    }
    const T: u64 = 3;
    let rec = Arc::new(DebuggingRecorder::new());
    let snap = rec.snapshotter();
    let rounds = a.budget(160_000, 4_000_000);
    let round = Arc::new(AtomicU64::new(0));
    let done = Arc::new(AtomicU64::new(0));
    let slot = Arc::new(std::sync::atomic::AtomicUsize::new(0));
    let mut hs = Vec::new();
    for _ in 0..T {
        let (rec, round, done, slot) = (rec.clone(), round.clone(), done.clone(), slot.clone());
        hs.push(std::thread::spawn(move || {
            let mut k = 1u64;
            loop {
                let mut spins = 0u32;
                loop {
                    let cur = round.load(Ordering::Acquire);
                    if cur == u64::MAX {
                        return;
                    }
                    if cur >= k {
                        break;
                    }
                    spins += 1;
                    if spins % 2048 == 0 {
                        std::thread::yield_now();
                    }
                }
                let key: &'static Key = unsafe { &*(slot.load(Ordering::Acquire) as *const Key) };
                rec.register_counter(key, &MD).increment(1);
                done.fetch_add(1, Ordering::AcqRel);
                k += 1;
            }
        }));
    }
    for k in 1..=rounds {
        let name: &'static str = Box::leak(format!("fu{}", k).into_boxed_str());
        let key: &'static Key = Box::leak(Box::new(Key::from_static_name(name)));
        slot.store(key as *const Key as usize, Ordering::Release);
        round.store(k, Ordering::Release);
        let mut spins = 0u32;
        while done.load(Ordering::Acquire) < T * k {
            spins += 1;
            if spins % 2048 == 0 {
                std::thread::yield_now();
            }
        }
    }
    round.store(u64::MAX, Ordering::Release);
    for h in hs {
        let _ = h.join();
    }
    let mut wrong: Vec<String> = Vec::new();
    let mut listed = 0u64;
    for (ck, _, _, v) in snap.snapshot().into_vec() {
        if let DebugValue::Counter(c) = v {
            listed += 1;
            if c != T && wrong.len() < 5 {
                wrong.push(format!("{} shows {} (expected {})", ck.key().name(), c, T));
            }
        }
    }
    rep.count("first_use_race_rounds", rounds);
    rep.case(mix(rounds, listed), true);
    if !wrong.is_empty() || listed != rounds {
        rep.violation("C19:counter-below-true-state:first-use-race", jo! {"what" => "counters registered for the first time by several threads at once (lazily hashed static keys) are not all listed once with every increment", "keys" => rounds, "listed" => listed, "examples" => J::A(wrong.into_iter().map(J::s).collect())});
    }
}

fn run_concurrent(a: &Args) -> Report {
    let mut rep = Report::new("C19", &a.leg, a.seed);
    if a.leg == "concurrent" {
        absolute_race(a, &mut rep);
        first_use_race(a, &mut rep);
    }
    let mut r = Rng::new(a.shard_seed());
    let miri = cfg!(miri);
    let with_hooks = a.leg == "concurrent-hooks";
    let n = if miri { 2 } else { a.budget(300, 30_000) };
    for _ in 0..n {
        let rec = Arc::new(DebuggingRecorder::new());
        let snap = rec.snapshotter();
        let nrec = if miri { 2 } else { 2 + r.usize(4) };
        let per = if miri { 30 } else { *r.pick(&[40usize, 300, 2000]) };
        let stamp = Arc::new(AtomicU64::new(1));
        // with hooks: thread 0's first registration of the racing gauge is held between the registry's read unlock and
        // write lock until thread 1 has finished all its work
        let ctx = if with_hooks {
            let rules = vec![rt::Rule::new(0, "registry.goc.between_locks", 1, 1, "@done", 1)];
            Some(rt::Ctx::new(rt::Policy::GateRandom(rules, 1, 8, 2), false))
        } else {
            None
        };
        let ngauges = if miri { 2 } else { 8 };
        let mut hs = Vec::new();
        for t in 0..nrec {
            let rec = rec.clone();
            let stamp = stamp.clone();
            let body = move || {
                // racing first registrations of the same fresh gauges: every thread adds 1 to each
                for gi in 0..ngauges {
                    let g = rec.register_gauge(&Key::from_parts("race_gauge", vec![metrics::Label::new("i", gi.to_string())]), &MD);
                    g.increment(1.0);
                }
                let h = rec.register_histogram(&Key::from_name("hh"), &MD);
                let c = rec.register_counter(&Key::from_name("cc"), &MD);
                let mut log = Vec::with_capacity(per);
                for i in 0..per {
                    let v = (t * 1_000_000 + i) as f64;
                    let call = if miri { 0 } else { stamp.fetch_add(1, Ordering::SeqCst) };
                    h.record(v);
                    c.increment(1);
                    let ret = if miri { 0 } else { stamp.fetch_add(1, Ordering::SeqCst) };
                    log.push((call, ret, v.to_bits()));
                }
                log
            };
            if let Some(cx) = &ctx {
                hs.push(rt::spawn_role(cx, t as u8, r.next_u64(), body));
            } else {
                hs.push(std::thread::spawn(body));
            }
        }
        let stamp2 = stamp.clone();
        let snap2 = snap.clone();
        let rounds = if miri { 3 } else { 25 };
        let sh = std::thread::spawn(move || {
            let mut out = Vec::new();
            for _ in 0..rounds {
                let call = if miri { 0 } else { stamp2.fetch_add(1, Ordering::SeqCst) };
                let s = snap2.snapshot().into_vec();
                let ret = if miri { 0 } else { stamp2.fetch_add(1, Ordering::SeqCst) };
                out.push((call, ret, s));
                std::thread::yield_now();
            }
            out
        });
        let mut log = Vec::new();
        for h in hs {
            log.extend(h.join().unwrap());
        }
        let mut snaps = sh.join().unwrap();
        if let Some(cx) = &ctx {
            cx.abort.store(true, Ordering::SeqCst);
        }
        for _ in 0..2 {
            let call = stamp.fetch_add(1, Ordering::SeqCst) + if miri { 1 << 40 } else { 0 };
            let s = snap.snapshot().into_vec();
            let ret = stamp.fetch_add(1, Ordering::SeqCst) + if miri { 1 << 40 } else { 0 };
            snaps.push((call, ret, s));
        }
        let desc = jo! {"recorder_threads" => nrec, "ops_each" => per, "snapshots" => snaps.len(), "bucket_hooks_random_holds" => with_hooks};
        let mut seen: HashMap<u64, usize> = HashMap::new();
        let mut hc = nrec as u64;
        for (si, (call, ret, s)) in snaps.iter().enumerate() {
            for (ck, _, _, v) in s {
                match v {
                    DebugValue::Histogram(vals) if ck.key().name() == "hh" => {
                        hc = mix(hc, vals.len() as u64 ^ (si as u64) << 32);
                        for x in vals {
                            if let Some(prev) = seen.insert(x.into_inner().to_bits(), si) {
                                rep.violation("C19:histogram-value-in-two-snapshots", jo! {"what" => "a histogram value appeared in two snapshots", "value" => x.into_inner(), "snapshots" => J::A(vec![J::U(prev as u64), J::U(si as u64)]), "run" => desc.clone()});
                            }
                        }
                    }
                    DebugValue::Counter(c) if ck.key().name() == "cc" && !miri => {
                        let lo = log.iter().filter(|x| x.1 < *call).count() as u64;
                        let hi = log.iter().filter(|x| x.0 < *ret).count() as u64;
                        if *c < lo || *c > hi {
                            rep.violation("C19:counter-outside-interval-bounds", jo! {"what" => "a snapshot shows a counter value outside [completed-before-call, invoked-before-return]", "value" => *c, "bounds" => J::A(vec![J::U(lo), J::U(hi)]), "run" => desc.clone()});
                        }
                    }
                    _ => {}
                }
            }
        }
        // every racing gauge must show the contribution of every thread
        if let Some((_, _, last)) = snaps.last() {
            let mut gauges_seen = 0usize;
            for (ck, _, _, v) in last {
                if let DebugValue::Gauge(g) = v {
                    if ck.key().name() == "race_gauge" {
                        gauges_seen += 1;
                        if g.into_inner() != nrec as f64 {
                            rep.violation("C19:value-differs:racing-first-registration", jo! {"what" => "a gauge first registered by several threads at once does not show every thread's update (a thread was handed a storage the snapshot does not read)", "value" => g.into_inner(), "expected" => nrec as f64, "run" => desc.clone()});
                            break;
                        }
                    }
                }
            }
            if gauges_seen != ngauges {
                rep.violation("C19:entries-missing-or-extra", jo! {"what" => "racing gauges missing from the snapshot", "seen" => gauges_seen, "expected" => ngauges, "run" => desc.clone()});
            }
        }
        let all: HashSet<u64> = log.iter().map(|x| x.2).collect();
        if seen.len() != all.len() || seen.keys().any(|k| !all.contains(k)) {
            rep.violation(if seen.len() < all.len() { "C19:histogram-value-lost" } else { "C19:histogram-value-fabricated" }, jo! {"what" => "the values appearing across all snapshots are not exactly the values recorded", "in_snapshots" => seen.len(), "recorded" => all.len(), "run" => desc.clone()});
        }
        if !miri {
            for (_c, r2, vb) in &log {
                if let (Some(si), Some(k)) = (seen.get(vb), snaps.iter().position(|s| s.0 > *r2)) {
                    if *si > k {
                        rep.violation("C19:histogram-value-late", jo! {"what" => "a value recorded before a snapshot began appears only in a later snapshot", "should_be_in" => k, "was_in" => *si, "run" => desc.clone()});
                        break;
                    }
                }
            }
        }
        rep.case(hc, true);
        if rep.want_sample() {
            rep.sample(jo! {"run" => desc, "values_recorded" => all.len(), "values_per_snapshot" => J::A(snaps.iter().map(|s| J::U(s.2.iter().map(|(_, _, _, v)| if let DebugValue::Histogram(x) = v { x.len() as u64 } else { 0 }).sum())).collect())});
        }
    }
    let _ = kind_of;
    rep
}
