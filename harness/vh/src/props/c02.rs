//! C02 — the global recorder is installed at most once and is seen whole by everyone.
use crate::rt::{self, mix, Args, Ctx, Policy, Report, Rng, Rule, J};
use metrics::verif::RecorderOnceCell;
use metrics::{Counter, Gauge, Histogram, Key, KeyName, Metadata, Recorder, SharedString, Unit};
use std::cell::Cell;
use std::sync::atomic::{AtomicBool, AtomicU64, AtomicUsize, Ordering};
use std::sync::Arc;

const CAN: u64 = 0xFEED_FACE_CAFE_F00D;

/// Recorder double with a payload canary and drop accounting. `describe_counter` reports the identity.
struct CanaryRec {
    id: u64,
    canary: [u64; 6],
    drops: Arc<Vec<AtomicUsize>>,
    calls: Arc<AtomicU64>,
}

impl CanaryRec {
    fn new(id: u64, drops: &Arc<Vec<AtomicUsize>>, calls: &Arc<AtomicU64>) -> Self {
        CanaryRec { id, canary: [CAN, CAN ^ id, !CAN, id, CAN.rotate_left(7), id.wrapping_mul(3)], drops: drops.clone(), calls: calls.clone() }
    }
    fn whole(&self) -> bool {
        self.canary == [CAN, CAN ^ self.id, !CAN, self.id, CAN.rotate_left(7), self.id.wrapping_mul(3)]
    }
}

impl Drop for CanaryRec {
    fn drop(&mut self) {
        self.drops[self.id as usize].fetch_add(1, Ordering::SeqCst);
    }
}

thread_local! {
    static SEEN: Cell<(u64, bool)> = const { Cell::new((u64::MAX, true)) };
}

impl Recorder for CanaryRec {
    fn describe_counter(&self, _: KeyName, _: Option<Unit>, _: SharedString) {
        self.calls.fetch_add(1, Ordering::Relaxed);
        SEEN.with(|s| s.set((self.id, self.whole())));
    }
    fn describe_gauge(&self, _: KeyName, _: Option<Unit>, _: SharedString) {}
    fn describe_histogram(&self, _: KeyName, _: Option<Unit>, _: SharedString) {}
    fn register_counter(&self, _: &Key, _: &Metadata<'_>) -> Counter {
        self.calls.fetch_add(1, Ordering::Relaxed);
        SEEN.with(|s| s.set((self.id, self.whole())));
        Counter::noop()
    }
    fn register_gauge(&self, k: &Key, _: &Metadata<'_>) -> Gauge {
        if k.name() == "c02_boom" {
            // a strict recorder rejecting a metric: the caller catches the panic and carries on emitting
            self.calls.fetch_add(1, Ordering::Relaxed);
            SEEN.with(|s| s.set((self.id, self.whole())));
            panic!("recorder rejects this metric");
        }
        Gauge::noop()
    }
    fn register_histogram(&self, _: &Key, _: &Metadata<'_>) -> Histogram {
        Histogram::noop()
    }
}

/// A per-thread object whose destructor emits a metric when the thread exits (created before the thread's first
/// emission, so it is destroyed after the library's own thread-locals).
struct ExitFlush {
    stamp: Arc<AtomicU64>,
    out: Arc<std::sync::Mutex<Vec<Ev>>>,
}
impl Drop for ExitFlush {
    fn drop(&mut self) {
        SEEN.with(|s| s.set((u64::MAX, true)));
        let call = self.stamp.fetch_add(1, Ordering::SeqCst);
        let _ = metrics::counter!("c02_flushed_at_thread_exit");
        let ret = self.stamp.fetch_add(1, Ordering::SeqCst);
        let (id, whole) = SEEN.with(|s| s.get());
        self.out.lock().unwrap().push(Ev::Load { seen: if id == u64::MAX { None } else { Some(id) }, whole, call, ret });
    }
}
thread_local! {
    static EXIT_FLUSH: std::cell::RefCell<Option<ExitFlush>> = const { std::cell::RefCell::new(None) };
}

#[derive(Clone, Debug)]
enum Ev {
    Set { id: u64, ok: bool, call: u64, ret: u64, returned_intact: bool },
    Load { seen: Option<u64>, whole: bool, call: u64, ret: u64 },
    Regressed,
}

pub fn run(a: &Args) -> Option<Report> {
    match a.leg.as_str() {
        "cells" | "miri" | "tsan" => Some(run_cells(a)),
        "global" => Some(run_global(a)),
        _ => None,
    }
}

fn check_events(rep: &mut Report, evs: &[Ev], drops: &Arc<Vec<AtomicUsize>>, desc: J, ordered: bool) {
    if evs.iter().any(|e| matches!(e, Ev::Regressed)) {
        rep.violation("C02:recorder-disappeared", jo! {"what" => "within one thread a lookup found no recorder after an earlier lookup had found one", "run" => desc.clone()});
    }
    let mut winners = Vec::new();
    for e in evs {
        if let Ev::Set { id, ok, returned_intact, .. } = e {
            if *ok {
                winners.push(*id);
            } else if !*returned_intact {
                rep.violation("C02:rejected-recorder-not-returned-intact", jo! {"what" => "a losing installer did not get its own recorder back whole and un-dropped", "installer" => *id, "run" => desc.clone()});
            }
        }
    }
    if winners.len() > 1 {
        rep.violation("C02:two-installations-succeeded", jo! {"what" => "more than one set() returned Ok on one cell", "winners" => J::A(winners.iter().map(|w| J::U(*w)).collect()), "run" => desc.clone()});
    }
    let nset = evs.iter().filter(|e| matches!(e, Ev::Set { .. })).count();
    if nset > 0 && winners.is_empty() {
        rep.violation("C02:no-installation-succeeded", jo! {"what" => "installers ran to completion on a fresh cell but none succeeded", "run" => desc.clone()});
    }
    let winner = winners.first().cloned();
    // winner's Ok return time
    let win_ret = evs.iter().find_map(|e| match e {
        Ev::Set { ok: true, ret, .. } => Some(*ret),
        _ => None,
    });
    let loads: Vec<(Option<u64>, bool, u64, u64)> = evs
        .iter()
        .filter_map(|e| match e {
            Ev::Load { seen, whole, call, ret } => Some((*seen, *whole, *call, *ret)),
            _ => None,
        })
        .collect();
    let mut first_some_ret = u64::MAX;
    for (seen, whole, _c, ret) in &loads {
        if let Some(x) = seen {
            if Some(*x) != winner {
                rep.violation("C02:dispatch-to-non-winner", jo! {"what" => "a lookup returned a recorder that is not the one whose installation succeeded", "seen" => *x, "winner" => format!("{:?}", winner), "run" => desc.clone()});
            }
            if !*whole {
                rep.violation("C02:partially-constructed-recorder-seen", jo! {"what" => "a dispatched call observed a recorder whose payload canary was not fully written", "seen" => *x, "run" => desc.clone()});
            }
            first_some_ret = first_some_ret.min(*ret);
        }
    }
    for (seen, _w, call, _r) in &loads {
        if seen.is_none() && ordered {
            if *call > first_some_ret {
                rep.violation("C02:recorder-disappeared", jo! {"what" => "a lookup found no recorder although an earlier lookup (returned before this one was called) had already been dispatched to the installed recorder", "run" => desc.clone()});
            }
            if let Some(wr) = win_ret {
                if *call > wr {
                    rep.violation("C02:recorder-invisible-after-install-returned", jo! {"what" => "a lookup called after the successful set() returned found no recorder", "run" => desc.clone()});
                }
            }
        }
    }
    // drop accounting: winner never dropped; losers dropped exactly once (by the harness, after being handed back)
    for e in evs {
        if let Ev::Set { id, ok, .. } = e {
            let d = drops[*id as usize].load(Ordering::SeqCst);
            if *ok && d != 0 {
                rep.violation("C02:installed-recorder-dropped", jo! {"what" => "the installed recorder was dropped", "id" => *id, "run" => desc.clone()});
            }
            if !*ok && d != 1 {
                rep.violation("C02:rejected-recorder-drop-count", jo! {"what" => "a rejected recorder was dropped by the library or leaked (drop count after the caller dropped it != 1)", "id" => *id, "drops" => d, "run" => desc.clone()});
            }
        }
    }
}

/// Runs its closure when dropped (used to call into the code under test while the thread is unwinding).
struct OnDrop<F: FnOnce()>(Option<F>);
impl<F: FnOnce()> Drop for OnDrop<F> {
    fn drop(&mut self) {
        if let Some(f) = self.0.take() {
            f()
        }
    }
}

fn run_cells(a: &Args) -> Report {
    rt::quiet_panics();
    let mut rep = Report::new("C02", &a.leg, a.seed);
    let mut r = Rng::new(a.shard_seed());
    let miri = cfg!(miri);
    let tsan = a.leg == "tsan";
    let trials = if miri { 5 } else { a.budget(8000, 800_000) };
    let mut sigs = std::collections::HashSet::new();
    let mut win: std::collections::BTreeMap<String, u64> = Default::default();
    for t in 0..trials {
        let cell: &'static RecorderOnceCell = Box::leak(Box::new(RecorderOnceCell::new()));
        let ninst = if miri { 2 } else { 1 + r.usize(5) };
        let nload = if miri { 2 } else { 1 + r.usize(6) };
        let attempts = 1 + r.usize(3);
        let loads_per = if miri { 6 } else { 2 + r.usize(20) };
        let total_ids = ninst * attempts;
        let drops: Arc<Vec<AtomicUsize>> = Arc::new((0..total_ids).map(|_| AtomicUsize::new(0)).collect());
        let calls = Arc::new(AtomicU64::new(0));
        // schedule: roles 0..ninst installers, ninst.. loaders
        let mode = if miri || tsan { 9 } else { t % 4 };
        let mut rules = Vec::new();
        let mut sched = "none";
        match mode {
            0 => {
                // winner candidate (role 0) is held right after winning the CAS until everybody else is done
                sched = "hold-winner-after-cas";
                for o in 1..(ninst + nload) {
                    rules.push(Rule::new(0, "cell.set.after_cas", 1, o as u8, "@done", 1));
                    rules.push(Rule::new(o as u8, "@start", 1, 0, "cell.set.after_cas", 1));
                }
            }
            1 => {
                sched = "hold-winner-after-write";
                for o in 1..(ninst + nload) {
                    rules.push(Rule::new(0, "cell.set.after_write", 1, o as u8, "@done", 1));
                    rules.push(Rule::new(o as u8, "@start", 1, 0, "cell.set.after_write", 1));
                }
            }
            2 => {
                // a loader that saw INITIALIZED is held before reading the pointer while the installers keep trying
                sched = "hold-loader-after-state";
                let l = ninst as u8;
                for o in 0..ninst {
                    rules.push(Rule::new(l, "cell.load.after_state", 1, o as u8, "@done", 1));
                }
            }
            _ => {}
        }
        let policy = match mode {
            0 | 1 | 2 => Policy::GateRandom(rules, 1, 4, 2),
            3 => Policy::Random { num: 1, den: 2, hold: 2 },
            _ => Policy::Off,
        };
        let ctx = Ctx::new(policy, !(miri || tsan));
        let gstamp = Arc::new(AtomicU64::new(1));
        let mut hs = Vec::new();
        for i in 0..ninst {
            let drops = drops.clone();
            let calls = calls.clone();
            let c = ctx.clone();
            let g = gstamp.clone();
            let use_ctx = !(miri || tsan);
            let unwinding: Vec<bool> = (0..attempts).map(|_| r.chance(1, 5)).collect();
            let body = move || {
                let mut out = Vec::new();
                for k in 0..attempts {
                    let id = (i * attempts + k) as u64;
                    let rec = CanaryRec::new(id, &drops, &calls);
                    let _ = &g;
                    let call = if use_ctx { c.stamp() } else { 0 };
                    // some installs run from a destructor while their thread unwinds from an unrelated panic (a scope
                    // guard / teardown path): the install itself completes normally and must count like any other
                    let res = if unwinding[k] {
                        let mut slot = None;
                        let _ = std::panic::catch_unwind(std::panic::AssertUnwindSafe(|| {
                            let _g = OnDrop(Some(|| slot = Some(cell.set(rec))));
                            panic!("unrelated panic unwinding through an installer's scope");
                        }));
                        slot.expect("destructor ran")
                    } else {
                        cell.set(rec)
                    };
                    let ret = if use_ctx { c.stamp() } else { 0 };
                    match res {
                        Ok(()) => out.push(Ev::Set { id, ok: true, call, ret, returned_intact: true }),
                        Err(e) => {
                            let back = e.into_inner();
                            let intact = back.id == id && back.whole() && drops[id as usize].load(Ordering::SeqCst) == 0;
                            drop(back);
                            out.push(Ev::Set { id, ok: false, call, ret, returned_intact: intact });
                        }
                    }
                }
                out
            };
            if miri || tsan {
                hs.push(std::thread::spawn(body));
            } else {
                hs.push(rt::spawn_role(&ctx, i as u8, r.next_u64(), body));
            }
        }
        for l in 0..nload {
            let c = ctx.clone();
            let g = gstamp.clone();
            let use_ctx = !(miri || tsan);
            let body = move || {
                let mut out = Vec::new();
                let mut seen_some = false;
                let _ = &g;
                for _ in 0..loads_per {
                    let call = if use_ctx { c.stamp() } else { 0 };
                    let got = cell.try_load();
                    let seen = match got {
                        Some(rec) => {
                            SEEN.with(|s| s.set((u64::MAX, true)));
                            rec.describe_counter(KeyName::from_const_str("x"), None, SharedString::const_str(""));
                            let (id, whole) = SEEN.with(|s| s.get());
                            Some((id, whole))
                        }
                        None => None,
                    };
                    let ret = if use_ctx { c.stamp() } else { 0 };
                    // per-thread rule needs no cross-thread ordering: once seen, never gone
                    if seen.is_none() && seen_some {
                        out.push(Ev::Regressed);
                    }
                    seen_some |= seen.is_some();
                    out.push(Ev::Load { seen: seen.map(|x| x.0), whole: seen.map(|x| x.1).unwrap_or(true), call, ret });
                    std::thread::yield_now();
                }
                out
            };
            if miri || tsan {
                hs.push(std::thread::spawn(body));
            } else {
                hs.push(rt::spawn_role(&ctx, (ninst + l) as u8, r.next_u64(), body));
            }
        }
        let mut evs = Vec::new();
        for h in hs {
            evs.extend(h.join().unwrap());
        }
        ctx.abort.store(true, Ordering::SeqCst);
        // final quiescent load
        {
            let call = 1u64 << 40;
            let got = cell.try_load();
            let seen = got.map(|rec| {
                rec.describe_counter(KeyName::from_const_str("x"), None, SharedString::const_str(""));
                SEEN.with(|s| s.get())
            });
            evs.push(Ev::Load { seen: seen.map(|x| x.0), whole: seen.map(|x| x.1).unwrap_or(true), call: if miri || tsan { call } else { ctx.stamp() }, ret: if miri || tsan { call + 1 } else { ctx.stamp() } });
        }
        if ctx.expired.load(Ordering::SeqCst) > 0 {
            rep.inconclusive("gate expired");
            continue;
        }
        let hook_evs = ctx.take_events();
        let sig = Ctx::signature(&hook_evs, &|p| rt::POINTS[p as usize].starts_with("cell."));
        sigs.insert(sig);
        if mode <= 2 && ctx.unsat.load(Ordering::SeqCst) == 0 {
            *win.entry(format!("window:{}", sched)).or_insert(0) += 1;
        }
        let desc = jo! {"installers" => ninst, "attempts_each" => attempts, "loaders" => nload, "loads_each" => loads_per, "schedule" => sched};
        let mut h = sig;
        for e in &evs {
            h = mix(h, match e { Ev::Set { id, ok, call, .. } => id ^ ((*ok as u64) << 50) ^ call << 8, Ev::Load { seen, call, .. } => seen.unwrap_or(99) ^ call << 9, Ev::Regressed => 5 });
        }
        rep.case(h, ninst + nload >= 3);
        check_events(&mut rep, &evs, &drops, desc.clone(), !(miri || tsan));
        if rep.want_sample() && (t % 4 == 1 || miri) {
            rep.sample(jo! {"run" => desc, "events" => J::A(evs.iter().take(16).map(|e| J::s(format!("{:?}", e))).collect()), "hook_events" => hook_evs.len()});
        }
    }
    rep.count("interleaving_signatures", sigs.len() as u64);
    for (k, v) in win {
        rep.count(&k, v);
    }
    rep
}

/// One process = one trial of the real global cell: racing set_global_recorder calls vs macro emissions.
fn run_global(a: &Args) -> Report {
    rt::quiet_panics();
    let mut rep = Report::new("C02", &a.leg, a.seed);
    let mut r = Rng::new(a.shard_seed());
    // every other process runs the "probe" schedule: a single installer is held right after the cell was published
    // (before set_global_recorder has returned) while a thread without a local recorder emits, first with a local
    // recorder alive on some other thread and then after that one was dropped
    let probe = a.shard % 2 == 0;
    let ninst = if probe { 1 } else { 2 + r.usize(4) };
    let nemit = 2 + r.usize(8);
    let ctx = Ctx::new(
        if probe {
            Policy::Gate(vec![Rule::new(0, "cell.set.after_publish", 1, 1, "@done", 1), Rule::new(1, "@start", 1, 0, "cell.set.after_publish", 1)])
        } else {
            Policy::Off
        },
        false,
    );
    let drops: Arc<Vec<AtomicUsize>> = Arc::new((0..ninst).map(|_| AtomicUsize::new(0)).collect());
    let calls = Arc::new(AtomicU64::new(0));
    let stamp = Arc::new(AtomicU64::new(1));
    let go = Arc::new(AtomicBool::new(false));
    let mut hs = Vec::new();
    let per = a.budget(3000, 30_000) as usize;
    for i in 0..ninst {
        let (drops, calls, stamp, go) = (drops.clone(), calls.clone(), stamp.clone(), go.clone());
        let delay = r.below((per as u64).min(4000));
        let spawn_installer = |f: Box<dyn FnOnce() -> Vec<Ev> + Send>| if probe { rt::spawn_role(&ctx, 0, 1, f) } else { std::thread::spawn(f) };
        hs.push(spawn_installer(Box::new(move || {
            while !go.load(Ordering::SeqCst) {
                std::hint::spin_loop();
            }
            // let the emitters run for a while first (logical delay: wait for the stamp counter to advance)
            while stamp.load(Ordering::SeqCst) < delay {
                std::thread::yield_now();
            }
            let rec = CanaryRec::new(i as u64, &drops, &calls);
            let call = stamp.fetch_add(1, Ordering::SeqCst);
            let res = metrics::set_global_recorder(rec);
            let ret = stamp.fetch_add(1, Ordering::SeqCst);
            match res {
                Ok(()) => vec![Ev::Set { id: i as u64, ok: true, call, ret, returned_intact: true }],
                Err(e) => {
                    let back = e.into_inner();
                    let intact = back.id == i as u64 && back.whole() && drops[i].load(Ordering::SeqCst) == 0;
                    drop(back);
                    vec![Ev::Set { id: i as u64, ok: false, call, ret, returned_intact: intact }]
                }
            }
        })));
    }
    if probe {
        let stamp = stamp.clone();
        hs.push(rt::spawn_role(&ctx, 1, 2, move || {
            static QUIET: metrics::NoopRecorder = metrics::NoopRecorder;
            let (cmd_tx, cmd_rx) = std::sync::mpsc::channel::<bool>();
            let (ack_tx, ack_rx) = std::sync::mpsc::channel::<()>();
            // another thread that owns a thread-local recorder for a while
            let other = std::thread::spawn(move || {
                let mut guard = None;
                while let Ok(install) = cmd_rx.recv() {
                    if install {
                        guard = Some(metrics::set_default_local_recorder(&QUIET));
                    } else {
                        guard = None;
                    }
                    let _ = ack_tx.send(());
                }
                drop(guard);
            });
            let mut out = Vec::new();
            let mut emit = |out: &mut Vec<Ev>| {
                SEEN.with(|s| s.set((u64::MAX, true)));
                let call = stamp.fetch_add(1, Ordering::SeqCst);
                let _ = metrics::counter!("c02_probe");
                let ret = stamp.fetch_add(1, Ordering::SeqCst);
                let (id, whole) = SEEN.with(|s| s.get());
                out.push(Ev::Load { seen: if id == u64::MAX { None } else { Some(id) }, whole, call, ret });
            };
            let _ = cmd_tx.send(true);
            let _ = ack_rx.recv_timeout(std::time::Duration::from_secs(5));
            emit(&mut out);
            let _ = cmd_tx.send(false);
            let _ = ack_rx.recv_timeout(std::time::Duration::from_secs(5));
            emit(&mut out);
            emit(&mut out);
            drop(cmd_tx);
            let _ = other.join();
            out
        }));
    }
    let exit_evs: Arc<std::sync::Mutex<Vec<Ev>>> = Arc::new(std::sync::Mutex::new(Vec::new()));
    for _ in 0..nemit {
        let (stamp, go) = (stamp.clone(), go.clone());
        let exit_evs = exit_evs.clone();
        hs.push(std::thread::spawn(move || {
            // before this thread's first emission
            EXIT_FLUSH.with(|f| *f.borrow_mut() = Some(ExitFlush { stamp: stamp.clone(), out: exit_evs }));
            while !go.load(Ordering::SeqCst) {
                std::hint::spin_loop();
            }
            let mut out = Vec::new();
            for k in 0..per {
                SEEN.with(|s| s.set((u64::MAX, true)));
                let call = stamp.fetch_add(1, Ordering::SeqCst);
                if k % 97 == 96 {
                    // the recorder (if one is installed) panics on this one; the panic is caught and the thread goes on
                    let _ = std::panic::catch_unwind(|| {
                        let _ = metrics::gauge!("c02_boom");
                    });
                } else if k % 2 == 0 {
                    let _ = metrics::counter!("c02_probe");
                } else {
                    metrics::describe_counter!("c02_probe", "d");
                }
                let ret = stamp.fetch_add(1, Ordering::SeqCst);
                let (id, whole) = SEEN.with(|s| s.get());
                out.push(Ev::Load { seen: if id == u64::MAX { None } else { Some(id) }, whole, call, ret });
            }
            out
        }));
    }
    // an unrelated thread that keeps installing and dropping a thread-local recorder of its own while all this happens:
    // what other threads do with local recorders must not influence where global emissions go
    let flap_stop = Arc::new(AtomicBool::new(false));
    let flapper = {
        let (flap_stop, go) = (flap_stop.clone(), go.clone());
        std::thread::spawn(move || {
            let local = metrics::NoopRecorder;
            while !go.load(Ordering::SeqCst) {
                std::hint::spin_loop();
            }
            let mut k = 0u64;
            while !flap_stop.load(Ordering::SeqCst) {
                let g = metrics::set_default_local_recorder(&local);
                if k % 3 == 0 {
                    std::thread::yield_now();
                }
                drop(g);
                k += 1;
            }
        })
    };
    go.store(true, Ordering::SeqCst);
    let mut evs = Vec::new();
    for h in hs {
        evs.extend(h.join().unwrap());
    }
    flap_stop.store(true, Ordering::SeqCst);
    let _ = flapper.join();
    // emissions made by thread-local destructors while the emitter threads were exiting
    let at_exit: Vec<Ev> = std::mem::take(&mut *exit_evs.lock().unwrap());
    rep.count("emissions_from_thread_exit_destructors", at_exit.len() as u64);
    evs.extend(at_exit);
    if probe {
        rep.count("probe:installer-held-after-publication", (ctx.unsat.load(Ordering::SeqCst) == 0 && ctx.expired.load(Ordering::SeqCst) == 0) as u64);
    }
    let desc = jo! {"installers" => ninst, "emitters" => nemit, "emissions_each" => per, "real_global_cell" => true, "probe_schedule" => probe};
    let nones = evs.iter().filter(|e| matches!(e, Ev::Load { seen: None, .. })).count();
    let mut h = ninst as u64 * 31 + nemit as u64;
    for e in evs.iter().filter(|e| matches!(e, Ev::Set { .. })) {
        if let Ev::Set { id, ok, call, .. } = e {
            h = mix(h, id ^ ((*ok as u64) << 40) ^ call << 4);
        }
    }
    rep.case(mix(h, nones as u64), true);
    rep.case(mix(h, 1), true);
    check_events(&mut rep, &evs, &drops, desc.clone(), true);
    rep.count("emissions_before_install(no-op)", nones as u64);
    rep.count("emissions_dispatched", (evs.len() - ninst - nones) as u64);
    rep.sample(jo! {"run" => desc, "emissions_to_noop_before_install" => nones, "calls_into_recorder" => calls.load(Ordering::SeqCst)});
    rep
}
