//! C03 — Key Eq / Ord / Hash coherence, construction-path independence, get_hash stability.
use crate::doubles::KeyDesc;
use crate::rt::{self, fnv, mix, Args, Ctx, Policy, Report, Rng, Rule, J};
use metrics::{Key, KeyName, Label, SharedString};
use metrics_util::{CompositeKey, Hashable, MetricKind};
use std::cmp::Ordering;
use std::hash::{Hash, Hasher};
use std::sync::Arc;

const NAMES: &[&str] = &["", "a", "b", "ab", "é", "a.b"];
const LKEYS: &[&str] = &["", "k", "l", "m", "é", "kk", "n", "o", "p", "q", "r"];
const LVALS: &[&str] = &["", "x", "y", "é"];

/// A std Hasher that records the exact byte stream it is fed.
#[derive(Default)]
struct RecordingHasher(Vec<u8>);
impl Hasher for RecordingHasher {
    fn finish(&self) -> u64 {
        fnv(&self.0)
    }
    fn write(&mut self, bytes: &[u8]) {
        self.0.extend_from_slice(bytes);
        self.0.push(0xFE); // call boundary marker
    }
}

/// Static strings for the borrowed construction paths. Strings that are a prefix of one of the shared buffers are
/// returned as slices of that one buffer, so different strings can start at the same address (pointer identity must
/// never stand in for content equality).
fn leak_str(s: &str) -> &'static str {
    static SHARED: [&str; 4] = ["ab", "a.b", "kk", "xé"];
    for b in SHARED.iter() {
        if b.starts_with(s) {
            return &b[..s.len()];
        }
    }
    Box::leak(s.to_string().into_boxed_str())
}
fn leak_labels(v: Vec<Label>) -> &'static [Label] {
    Box::leak(v.into_boxed_slice())
}

fn mk_label(r: &mut Rng, k: &str, v: &str) -> Label {
    match r.below(4) {
        0 => Label::new(k.to_string(), v.to_string()),
        1 => Label::from_static_parts(leak_str(k), leak_str(v)),
        2 => Label::new(SharedString::from_shared(Arc::from(k)), SharedString::from_shared(Arc::from(v))),
        _ => Label::from(&(k.to_string(), v.to_string())),
    }
}

pub const NPATHS: u64 = 10;

/// Build a Key for `d` through construction path `path`.
pub fn build(r: &mut Rng, d: &KeyDesc, path: u64) -> Key {
    let labels: Vec<Label> = d.labels.iter().map(|(k, v)| mk_label(r, k, v)).collect();
    match path {
        0 => Key::from_parts(d.name.clone(), labels),
        1 => Key::from_parts(leak_str(&d.name), labels),
        2 => Key::from_static_parts(leak_str(&d.name), leak_labels(labels)),
        3 => Key::from_static_labels(d.name.clone(), leak_labels(labels)),
        4 => Key::from_name(d.name.clone()).with_extra_labels(labels),
        5 => {
            let cut = r.usize(labels.len() + 1);
            let (a, b) = labels.split_at(cut);
            Key::from_parts(d.name.clone(), a.to_vec()).with_extra_labels(b.to_vec())
        }
        6 => {
            let k = Key::from_static_parts(leak_str(&d.name), leak_labels(labels));
            if r.chance(1, 2) {
                let _ = k.get_hash();
            }
            k.clone()
        }
        7 => Key::from_parts(KeyName::from(SharedString::from_shared(Arc::from(d.name.as_str()))), labels),
        8 => {
            let pairs: Vec<(String, String)> = d.labels.clone();
            Key::from((d.name.clone(), &pairs[..]))
        }
        _ => {
            if d.labels.is_empty() {
                if r.chance(1, 2) {
                    Key::from(d.name.clone())
                } else {
                    Key::from_static_name(leak_str(&d.name))
                }
            } else {
                let (n, l) = Key::from_parts(d.name.clone(), labels).into_parts();
                Key::from_parts(n, l)
            }
        }
    }
}

fn gen_desc(r: &mut Rng) -> KeyDesc {
    let name = r.pick(NAMES).to_string();
    let nl = match r.below(10) {
        0 => 0,
        1 => 1,
        2 | 3 => 2,
        4 | 5 => 3,
        6 => 3 + r.usize(5),
        7 => 8,
        8 if r.chance(1, 2) => 21 + r.usize(12), // beyond the sizes at which sorts switch algorithm
        _ => r.usize(11),
    };
    let distinct = r.chance(1, 2);
    let nk = if r.chance(1, 3) { 2 } else { LKEYS.len() };
    let mut labels = Vec::new();
    let mut ks: Vec<&str> = LKEYS.to_vec();
    r.shuffle(&mut ks);
    for i in 0..nl {
        let k = if distinct { ks[i % ks.len()] } else { LKEYS[r.usize(nk)] };
        let small = r.chance(1, 2);
        let v = *r.pick(if small { &LVALS[..2] } else { LVALS });
        labels.push((k.to_string(), v.to_string()));
    }
    KeyDesc { name, labels }
}

fn names_distinct(d: &KeyDesc) -> bool {
    let mut s: Vec<&str> = d.labels.iter().map(|l| l.0.as_str()).collect();
    s.sort();
    s.windows(2).all(|w| w[0] != w[1])
}

fn stream(k: &Key) -> Vec<u8> {
    let mut h = RecordingHasher::default();
    k.hash(&mut h);
    h.0
}

fn desc_hash(d: &KeyDesc, path: u64) -> u64 {
    let mut h = mix(fnv(d.name.as_bytes()), path);
    for (k, v) in &d.labels {
        h = mix(h, fnv(k.as_bytes()));
        h = mix(h, fnv(v.as_bytes()) ^ 0x55);
    }
    h
}

fn viol(rep: &mut Report, sig: &str, what: &str, ks: &[(&KeyDesc, u64)]) {
    let mut keys = Vec::new();
    for (d, p) in ks {
        keys.push(d.to_json().set("path", J::U(*p)));
    }
    rep.violation(sig, jo! {"what" => what, "keys" => J::A(keys)});
}

fn classify_eq_ord(a: &KeyDesc, b: &KeyDesc) -> String {
    // signature specific to the failing input class
    let n = a.labels.len();
    let dup = !names_distinct(a) || !names_distinct(b);
    let same_multiset = a.sorted() == b.sorted();
    format!(
        "C03:eq-vs-cmp:labels={}:{}:{}",
        if n >= 8 { "8+".to_string() } else { n.to_string() },
        if dup { "repeated-names" } else { "distinct-names" },
        if same_multiset { "same-multiset" } else { "different-multiset" }
    )
}

pub fn run(a: &Args) -> Option<Report> {
    match a.leg.as_str() {
        "native" | "miri-seq" => Some(run_relations(a)),
        "race" | "miri-race" => Some(run_race(a)),
        "clone-race" => Some(run_clone_race(a)),
        _ => None,
    }
}

fn run_relations(a: &Args) -> Report {
    let mut rep = Report::new("C03", &a.leg, a.seed);
    let mut r = Rng::new(a.shard_seed());
    let miri = cfg!(miri);
    let pools = if miri { 2 } else { a.budget(400, 20_000) };
    let pool_size = if miri { 10 } else { 36 };
    for _ in 0..pools {
        // a pool biased towards collisions: a few base descriptors, variants by permutation / path
        let mut descs: Vec<(KeyDesc, u64)> = Vec::new();
        let nbase = 2 + r.usize(4);
        let bases: Vec<KeyDesc> = (0..nbase).map(|_| gen_desc(&mut r)).collect();
        while descs.len() < pool_size {
            let mut d = r.pick(&bases).clone();
            match r.below(6) {
                0 if d.labels.len() < 12 || r.chance(1, 3) => r.shuffle(&mut d.labels),
                0 => {
                    // permute, keeping labels that share a name in their relative order (such keys are equal)
                    let orig = d.labels.clone();
                    let mut shuffled = orig.clone();
                    r.shuffle(&mut shuffled);
                    let mut next_of: std::collections::HashMap<String, Vec<(String, String)>> = std::collections::HashMap::new();
                    for l in orig.iter().rev() {
                        next_of.entry(l.0.clone()).or_default().push(l.clone());
                    }
                    d.labels = shuffled.iter().map(|l| next_of.get_mut(&l.0).unwrap().pop().unwrap()).collect();
                }
                1 if !d.labels.is_empty() => {
                    let i = r.usize(d.labels.len());
                    d.labels[i].1 = r.pick(LVALS).to_string();
                }
                2 if d.labels.len() >= 2 => {
                    let i = r.usize(d.labels.len() - 1);
                    d.labels.swap(i, i + 1);
                }
                3 => d.name = r.pick(NAMES).to_string(),
                _ => {}
            }
            let p = r.below(NPATHS);
            descs.push((d, p));
        }
        let keys: Vec<Key> = descs.iter().map(|(d, p)| build(&mut r, d, *p)).collect();
        let streams: Vec<Vec<u8>> = keys.iter().map(stream).collect();
        // first get_hash of each key, possibly from another thread for half of them
        let hashes: Vec<u64> = keys.iter().map(|k| k.get_hash()).collect();
        // unary checks
        for (i, k) in keys.iter().enumerate() {
            let (d, p) = (&descs[i].0, descs[i].1);
            if KeyDesc::of(k) != *d {
                viol(&mut rep, "C03:content-differs-from-construction", "key reads back different name/labels", &[(d, p)]);
            }
            if !(k == k) || k.cmp(k) != Ordering::Equal {
                viol(&mut rep, "C03:not-reflexive", "k != k or cmp(k,k) != Equal", &[(d, p)]);
            }
            if k.get_hash() != hashes[i] || k.clone().get_hash() != hashes[i] || k.hashable() != hashes[i] {
                viol(&mut rep, "C03:get_hash-unstable", "get_hash changed between calls / clone / Hashable", &[(d, p)]);
            }
            if stream(k) != streams[i] {
                viol(&mut rep, "C03:hash-stream-unstable", "Hash stream changed between calls", &[(d, p)]);
            }
            let ck = CompositeKey::new(MetricKind::Counter, k.clone());
            let cg = CompositeKey::new(MetricKind::Gauge, k.clone());
            if ck == cg || ck.cmp(&cg) == Ordering::Equal || ck.key() != k {
                viol(&mut rep, "C03:composite-kind-ignored", "composite keys of different kinds compare equal", &[(d, p)]);
            }
        }
        // pairs
        let n = keys.len();
        for i in 0..n {
            for j in 0..n {
                let (da, pa) = (&descs[i].0, descs[i].1);
                let (db, pb) = (&descs[j].0, descs[j].1);
                let (ka, kb) = (&keys[i], &keys[j]);
                let eq = ka == kb;
                let c = ka.cmp(kb);
                let nontrivial = da.name == db.name && da.labels.len() == db.labels.len();
                if i < j {
                    rep.case(mix(desc_hash(da, pa), desc_hash(db, pb)), nontrivial);
                    if rep.want_sample() && nontrivial && da != db {
                        rep.sample(jo! {"a" => da.to_json().set("path", J::U(pa)), "b" => db.to_json().set("path", J::U(pb)),
                        "eq" => eq, "cmp" => format!("{:?}", c), "same_get_hash" => hashes[i]==hashes[j]});
                    }
                }
                if eq != (kb == ka) {
                    viol(&mut rep, "C03:eq-not-symmetric", "a==b differs from b==a", &[(da, pa), (db, pb)]);
                }
                if (ka != kb) == eq {
                    viol(&mut rep, "C03:ne-inconsistent", "a!=b is not !(a==b)", &[(da, pa), (db, pb)]);
                }
                if eq != (c == Ordering::Equal) {
                    let sig = classify_eq_ord(da, db);
                    viol(&mut rep, &sig, &format!("a==b is {} but a.cmp(b) is {:?}", eq, c), &[(da, pa), (db, pb)]);
                }
                if kb.cmp(ka) != c.reverse() {
                    viol(&mut rep, "C03:cmp-not-antisymmetric", "b.cmp(a) != a.cmp(b).reverse()", &[(da, pa), (db, pb)]);
                }
                if ka.partial_cmp(kb) != Some(c) {
                    viol(&mut rep, "C03:partial_cmp-differs", "partial_cmp != Some(cmp)", &[(da, pa), (db, pb)]);
                }
                if eq && (streams[i] != streams[j] || hashes[i] != hashes[j]) {
                    viol(&mut rep, "C03:equal-keys-hash-differently", "a==b but Hash stream or get_hash differ", &[(da, pa), (db, pb)]);
                }
                // model, only in the directions the property states
                let same_seq = da == db;
                let same_multiset = da.sorted() == db.sorted();
                if same_seq && !eq {
                    viol(&mut rep, "C03:construction-path-matters", "same name and label sequence built differently compare unequal", &[(da, pa), (db, pb)]);
                }
                if same_multiset && names_distinct(da) && !eq {
                    viol(&mut rep, "C03:label-order-matters", "distinct label names, permuted, compare unequal", &[(da, pa), (db, pb)]);
                }
                if eq && !same_multiset {
                    viol(&mut rep, "C03:false-equality", "keys with different name or label multiset compare equal", &[(da, pa), (db, pb)]);
                }
                let (ca, cb) = (
                    CompositeKey::new(MetricKind::Histogram, ka.clone()),
                    CompositeKey::new(MetricKind::Histogram, kb.clone()),
                );
                if (ca == cb) != eq || (ca.cmp(&cb) == Ordering::Equal) != (c == Ordering::Equal) {
                    viol(&mut rep, "C03:composite-differs-from-key", "CompositeKey relation differs from Key relation", &[(da, pa), (db, pb)]);
                }
            }
        }
        // triples (sampled): transitivity
        let triples = if miri { 50 } else { 600 };
        for _ in 0..triples {
            let (i, j, k) = (r.usize(n), r.usize(n), r.usize(n));
            let (x, y, z) = (&keys[i], &keys[j], &keys[k]);
            if x == y && y == z && !(x == z) {
                viol(&mut rep, "C03:eq-not-transitive", "a==b, b==c, a!=c", &[(&descs[i].0, descs[i].1), (&descs[j].0, descs[j].1), (&descs[k].0, descs[k].1)]);
            }
            if x.cmp(y) != Ordering::Greater && y.cmp(z) != Ordering::Greater && x.cmp(z) == Ordering::Greater {
                viol(&mut rep, "C03:cmp-not-transitive", "a<=b, b<=c, a>c", &[(&descs[i].0, descs[i].1), (&descs[j].0, descs[j].1), (&descs[k].0, descs[k].1)]);
            }
            rep.count("triples", 1);
        }
        // sorting with cmp must group equal keys adjacently (consequence of a total order consistent with eq)
        let mut idx: Vec<usize> = (0..n).collect();
        idx.sort_by(|&x, &y| keys[x].cmp(&keys[y]));
        for w in 0..n {
            for v in (w + 1)..n {
                if keys[idx[w]] == keys[idx[v]] {
                    for m in w..v {
                        if keys[idx[m]] != keys[idx[w]] {
                            viol(&mut rep, "C03:sort-splits-equal-keys", "sorting by cmp separates equal keys", &[(&descs[idx[w]].0, descs[idx[w]].1), (&descs[idx[m]].0, descs[idx[m]].1), (&descs[idx[v]].0, descs[idx[v]].1)]);
                        }
                    }
                }
            }
        }
        rep.count("pools", 1);
    }
    rep
}

/// Racing first get_hash() on a shared, not-yet-hashed key; gates on the point between the two stores.
fn run_race(a: &Args) -> Report {
    let mut rep = Report::new("C03", &a.leg, a.seed);
    let mut r = Rng::new(a.shard_seed());
    let miri = cfg!(miri);
    let trials = if miri { 6 } else { a.budget(3000, 300_000) };
    let mut sigs = std::collections::HashSet::new();
    let mut windows = 0u64;
    for t in 0..trials {
        let d = gen_desc(&mut r);
        let reference = build(&mut r, &d, 0).get_hash();
        let path = if r.chance(1, 2) { 2 } else { 3 };
        let key = Arc::new(build(&mut r, &d, path));
        let nthreads = 2 + r.usize(if miri { 2 } else { 5 });
        // policy: thread 0 is held between its two stores until every other thread finished its call
        let mode = if miri { 3 } else { t % 3 };
        let mut rules = Vec::new();
        if mode == 0 {
            for o in 1..nthreads {
                rules.push(Rule::new(0, "key.hash.between_stores", 1, o as u8, "@done", 1));
                rules.push(Rule::new(o as u8, "@start", 1, 0, "key.hash.between_stores", 1));
            }
        }
        let policy = match mode {
            0 => Policy::Gate(rules),
            1 => Policy::Random { num: 1, den: 2, hold: 3 },
            _ => Policy::Off,
        };
        let ctx = Ctx::new(policy, !miri);
        let mut hs = Vec::new();
        for th in 0..nthreads {
            let key = key.clone();
            hs.push(rt::spawn_role(&ctx, th as u8, r.next_u64(), move || {
                let h1 = key.get_hash();
                let h2 = key.get_hash();
                (h1, h2)
            }));
        }
        let results: Vec<(u64, u64)> = hs.into_iter().map(|h| h.join().unwrap()).collect();
        ctx.abort.store(true, std::sync::atomic::Ordering::SeqCst);
        let evs = ctx.take_events();
        let between = rt::point_id("key.hash.between_stores") as u8;
        let done = rt::point_id("@done") as u8;
        let sig = Ctx::signature(&evs, &|p| p == between || p == done);
        // window: some other thread completed a get_hash while a thread sat between the two stores
        let mut in_window = false;
        if mode == 0 && ctx.expired.load(std::sync::atomic::Ordering::SeqCst) == 0 {
            in_window = true;
        }
        if ctx.expired.load(std::sync::atomic::Ordering::SeqCst) > 0 {
            rep.inconclusive("gate expired");
            continue;
        }
        if in_window {
            windows += 1;
        }
        sigs.insert(sig);
        rep.case(mix(sig, desc_hash(&d, path)), true);
        let final_hash = key.get_hash();
        for (i, (h1, h2)) in results.iter().enumerate() {
            if *h1 != reference || *h2 != reference || final_hash != reference {
                rep.violation(
                    "C03:racing-first-get_hash-wrong-value",
                    jo! {"what" => "get_hash() returned a value different from the key's hash while first uses raced",
                    "key" => d.to_json(), "thread" => i, "got" => format!("{:#x}/{:#x}", h1, h2), "expected" => format!("{:#x}", reference),
                    "mode" => mode, "threads" => nthreads},
                );
                break;
            }
        }
        if rep.want_sample() {
            rep.sample(jo! {"key" => d.to_json(), "threads" => nthreads, "mode" => mode, "events" => evs.len(), "all_equal_reference" => true});
        }
    }
    rep.count("interleaving_signatures", sigs.len() as u64);
    rep.count("window:get_hash-complete-while-other-between-stores", windows);
    rep
}

/// A key that is cloned while another thread performs its first get_hash(): the clone must hash like the original.
/// No hook exists inside Clone, so the window is widened by a large owned name (clone and hash both take ~100 us).
fn run_clone_race(a: &Args) -> Report {
    let mut rep = Report::new("C03", &a.leg, a.seed);
    let mut r = Rng::new(a.shard_seed());
    let rounds = a.budget(60, 3000);
    let mut overlapping_clones = 0u64;
    for _ in 0..rounds {
        let size = *r.pick(&[64usize << 10, 256 << 10, 1 << 20]);
        let name: String = std::iter::repeat('n').take(size).collect();
        let nl = r.usize(3);
        let labels: Vec<Label> = (0..nl).map(|i| Label::from_static_parts(leak_str(&format!("k{}", i)), "v")).collect();
        let key = Arc::new(Key::from_static_labels(name.clone(), leak_labels(labels.clone())));
        let reference = Key::from_parts(name, labels).get_hash();
        let go = Arc::new(std::sync::atomic::AtomicBool::new(false));
        let done = Arc::new(std::sync::atomic::AtomicBool::new(false));
        let (k2, g2, d2) = (key.clone(), go.clone(), done.clone());
        let hasher = std::thread::spawn(move || {
            while !g2.load(std::sync::atomic::Ordering::SeqCst) {
                std::hint::spin_loop();
            }
            let h = k2.get_hash();
            d2.store(true, std::sync::atomic::Ordering::SeqCst);
            h
        });
        let (k3, g3, d3) = (key.clone(), go.clone(), done.clone());
        let cloner = std::thread::spawn(move || {
            while !g3.load(std::sync::atomic::Ordering::SeqCst) {
                std::hint::spin_loop();
            }
            let mut bad: Option<u64> = None;
            let mut n = 0u64;
            loop {
                let finished_before = d3.load(std::sync::atomic::Ordering::SeqCst);
                let c = (*k3).clone();
                n += 1;
                let h = c.get_hash();
                if h != reference || c != *k3 {
                    bad = Some(h);
                }
                if finished_before || n > 10_000 {
                    break;
                }
            }
            (bad, n)
        });
        go.store(true, std::sync::atomic::Ordering::SeqCst);
        let h = hasher.join().unwrap();
        let (bad, n) = cloner.join().unwrap();
        overlapping_clones += n.saturating_sub(1);
        rep.case(mix(size as u64, mix(n, nl as u64)), n > 1);
        if h != reference {
            rep.violation("C03:racing-first-get_hash-wrong-value", jo! {"what" => "first get_hash() returned a wrong value while the key was being cloned", "got" => format!("{:#x}", h)});
        }
        if let Some(b) = bad {
            rep.violation(
                "C03:clone-during-first-get_hash-hashes-differently",
                jo! {"what" => "a clone taken while another thread performed the key's first get_hash() compares equal to the original but returns a different get_hash()", "clone_hash" => format!("{:#x}", b), "expected" => format!("{:#x}", reference), "name_bytes" => size, "labels" => nl},
            );
        }
        if rep.want_sample() {
            rep.sample(jo! {"clone_race" => true, "name_bytes" => size, "labels" => nl, "clones_taken_while_hashing" => n});
        }
    }
    rep.count("clones_overlapping_first_get_hash", overlapping_clones);
    rep
}
