//! C16 — the sampling reservoir reports true counts and favours no stream position.
use crate::rt::{self, fnv, mix, Args, Ctx, Policy, Report, Rng, Rule, J};
use metrics_util::storage::reservoir::AtomicSamplingReservoir;
use std::collections::{HashMap, HashSet};
use std::sync::atomic::Ordering;
use std::sync::Arc;

fn drain_all(res: &AtomicSamplingReservoir) -> (Vec<f64>, f64, usize) {
    let mut out = Vec::new();
    let mut rate = f64::NAN;
    let mut len = 0;
    res.consume(|mut d| {
        rate = d.sample_rate();
        len = d.len();
        // the reported rate belongs to the drain as a whole: it must not depend on how far the drain was iterated
        let mut k = 0;
        while let Some(v) = d.next() {
            out.push(v);
            k += 1;
            if (k == 1 || d.len() == 0) && d.sample_rate().to_bits() != rate.to_bits() {
                rate = f64::NAN; // reported below as a wrong sample rate
            }
        }
    });
    (out, rate, len)
}

pub fn run(a: &Args) -> Option<Report> {
    match a.leg.as_str() {
        "cycles" => Some(run_cycles(a)),
        "uniform" => Some(run_uniform(a)),
        "overlap" => Some(run_overlap(a)),
        "consumers" => Some(run_consumers(a)),
        "miri" | "tsan" => Some(run_small(a)),
        _ => None,
    }
}

const CAPS: &[usize] = &[0, 1, 2, 3, 4, 7, 8, 16, 64, 1024];

fn run_cycles(a: &Args) -> Report {
    let mut rep = Report::new("C16", &a.leg, a.seed);
    rt::quiet_panics();
    let mut r = Rng::new(a.shard_seed());
    let n = a.budget(6000, 600_000);
    for _ in 0..n {
        let cap = *r.pick(CAPS);
        let cycles = 1 + r.usize(5);
        let mut desc = Vec::new();
        let res = match rt::catch(|| AtomicSamplingReservoir::new(cap)) {
            Ok(x) => x,
            Err(m) => {
                rep.case(mix(cap as u64, 0), true);
                rep.violation(format!("C16:panic:new:capacity={}", if cap == 0 { "0".to_string() } else { "n".to_string() }), jo! {"what" => "AtomicSamplingReservoir::new panicked", "capacity" => cap, "panic" => m});
                continue;
            }
        };
        let mut h = cap as u64;
        let mut next_val = 1u64;
        let mut bad = false;
        for c in 0..cycles {
            if bad {
                break;
            }
            let pushes = match r.below(6) {
                0 => 0,
                1 => cap,
                2 => cap + 1,
                3 => cap.saturating_sub(1),
                4 => r.usize(3 * cap + 4),
                _ => r.usize(5),
            };
            h = mix(h, pushes as u64);
            desc.push(pushes);
            let special = [f64::NAN, f64::INFINITY, -0.0, f64::MIN_POSITIVE];
            let mut pushed: Vec<u64> = Vec::new();
            let pres = rt::catch(|| {
                let mut p = Vec::new();
                for i in 0..pushes {
                    let v = if i % 17 == 16 { special[(i / 17) % 4] } else { next_val as f64 };
                    next_val += 1;
                    res.push(v);
                    p.push(v.to_bits());
                }
                p
            });
            match pres {
                Ok(p) => pushed = p,
                Err(m) => {
                    rep.violation(format!("C16:panic:push:capacity={}", if cap == 0 { "0" } else { "n" }), jo! {"what" => "push panicked", "capacity" => cap, "pushes_in_cycle" => pushes, "panic" => m});
                    bad = true;
                    continue;
                }
            }
            let empty_before = res.is_empty();
            let (got, rate, len) = drain_all(&res);
            let ctx = jo! {"capacity" => cap, "cycle" => c, "pushes_per_cycle" => J::A(desc.iter().map(|x| J::U(*x as u64)).collect()), "yielded" => got.len(), "sample_rate" => rate};
            let pushed_set: HashMap<u64, usize> = pushed.iter().fold(HashMap::new(), |mut m, b| {
                *m.entry(*b).or_insert(0) += 1;
                m
            });
            let mut seen: HashMap<u64, usize> = HashMap::new();
            for v in &got {
                *seen.entry(v.to_bits()).or_insert(0) += 1;
            }
            if seen.iter().any(|(b, c)| pushed_set.get(b).cloned().unwrap_or(0) < *c) {
                rep.violation("C16:yielded-value-not-pushed-this-cycle", jo! {"what" => "a drain yielded a value that was not pushed since the previous drain (or more often than pushed)", "ctx" => ctx.clone()});
                bad = true;
            }
            if got.len() > cap {
                rep.violation("C16:more-than-capacity", jo! {"what" => "a drain yielded more values than the capacity", "ctx" => ctx.clone()});
                bad = true;
            }
            if got.len() != pushes.min(cap) || len != got.len() {
                rep.violation("C16:wrong-yield-count", jo! {"what" => "a drain did not yield min(pushed, capacity) values", "expected" => pushes.min(cap), "ctx" => ctx.clone()});
                bad = true;
            }
            if pushes > 0 {
                let exp = pushes.min(cap) as f64 / pushes as f64;
                if !((rate - exp).abs() <= 1e-12) {
                    rep.violation("C16:wrong-sample-rate", jo! {"what" => "sample_rate() != yielded / pushed", "expected" => exp, "ctx" => ctx.clone()});
                    bad = true;
                }
            }
            if empty_before != (pushes == 0) {
                rep.violation("C16:is_empty-wrong", jo! {"what" => "is_empty() disagrees with the number of values pushed since the last drain", "ctx" => ctx.clone()});
                bad = true;
            }
            // the next drain starts from empty
            if r.chance(1, 3) {
                let (again, _, _) = drain_all(&res);
                let (again2, _, _) = drain_all(&res);
                if !again.is_empty() || !again2.is_empty() {
                    rep.violation("C16:next-drain-not-empty", jo! {"what" => "a drain directly after a drain yielded values", "ctx" => ctx.clone(), "yielded_again" => again.len() + again2.len()});
                    bad = true;
                }
            }
        }
        rep.case(h, cycles > 1 || cap == 0);
        if rep.want_sample() && cycles > 2 {
            rep.sample(jo! {"capacity" => cap, "pushes_per_cycle" => J::A(desc.iter().map(|x| J::U(*x as u64)).collect())});
        }
    }
    rep
}

/// Retention frequency of every stream position over many independent trials vs Binomial(T, k/n).
fn run_uniform(a: &Args) -> Report {
    let mut rep = Report::new("C16", &a.leg, a.seed);
    rt::quiet_panics();
    let shapes: &[(usize, usize)] = &[(1, 2), (1, 3), (1, 5), (2, 3), (2, 5), (2, 9), (3, 4), (3, 10), (4, 5), (4, 12), (8, 9), (8, 20), (16, 17), (16, 40)];
    let trials = a.budget(30_000, 600_000) as usize;
    let mut tested = 0u64;
    for (si, (k, n)) in shapes.iter().enumerate() {
        if si as u64 % a.shards != a.shard % a.shards {
            // shapes are distributed over shards; every shard still runs full-size trials
            if a.shards > 1 {
                continue;
            }
        }
        let res = AtomicSamplingReservoir::new(*k);
        let mut counts = vec![0u64; *n];
        let ok = rt::catch(|| {
            for _ in 0..trials {
                for i in 0..*n {
                    res.push(i as f64);
                }
                res.consume(|d| {
                    for v in d {
                        counts[v as usize] += 1;
                    }
                });
            }
        });
        if let Err(m) = ok {
            rep.violation("C16:panic:push:capacity=n", jo! {"what" => "panic in uniformity trials", "panic" => m, "k" => *k, "n" => *n});
            continue;
        }
        let p = *k as f64 / *n as f64;
        let mean = trials as f64 * p;
        let sd = (trials as f64 * p * (1.0 - p)).sqrt();
        let mut worst = (0usize, 0.0f64);
        for (i, c) in counts.iter().enumerate() {
            let z = (*c as f64 - mean) / sd;
            if z.abs() > worst.1.abs() {
                worst = (i, z);
            }
        }
        tested += *n as u64;
        rep.case(mix(*k as u64, *n as u64), true);
        rep.case(mix(*k as u64 + 100, counts[0]), true);
        if worst.1.abs() > 6.5 {
            rep.violation(
                "C16:position-retention-not-uniform",
                jo! {"what" => "a stream position is retained with a frequency incompatible with capacity/n (|z| > 6.5, false-alarm probability < 1e-9)",
                "capacity" => *k, "stream_len" => *n, "trials" => trials, "expected_per_position" => mean, "worst_position" => worst.0, "worst_count" => counts[worst.0], "z" => worst.1,
                "counts" => J::A(counts.iter().map(|c| J::U(*c)).collect())},
            );
        }
        if rep.want_sample() {
            rep.sample(jo! {"capacity" => *k, "stream_len" => *n, "trials" => trials, "retention_counts" => J::A(counts.iter().map(|c| J::U(*c)).collect()), "max_abs_z" => worst.1.abs()});
        }
        // the same shape with every trial's stream pushed from a freshly started thread: the replacement decisions of
        // different threads must be independent draws too
        let ftrials = (trials / 10).max(1000);
        let res = Arc::new(AtomicSamplingReservoir::new(*k));
        let mut fcounts = vec![0u64; *n];
        for _ in 0..ftrials {
            let r2 = res.clone();
            let nn = *n;
            let _ = std::thread::spawn(move || {
                for i in 0..nn {
                    r2.push(i as f64);
                }
            })
            .join();
            res.consume(|d| {
                for v in d {
                    fcounts[v as usize] += 1;
                }
            });
        }
        let fmean = ftrials as f64 * p;
        let fsd = (ftrials as f64 * p * (1.0 - p)).sqrt();
        let mut fworst = (0usize, 0.0f64);
        for (i, c) in fcounts.iter().enumerate() {
            let z = (*c as f64 - fmean) / fsd;
            if z.abs() > fworst.1.abs() {
                fworst = (i, z);
            }
        }
        rep.case(mix(*k as u64 + 200, fcounts[0]), true);
        if fworst.1.abs() > 6.5 {
            rep.violation(
                "C16:position-retention-not-uniform:streams-from-fresh-threads",
                jo! {"what" => "with every trial's stream pushed from a newly started thread, a stream position is retained with a frequency incompatible with capacity/n (|z| > 6.5)",
                "capacity" => *k, "stream_len" => *n, "trials" => ftrials, "expected_per_position" => fmean, "worst_position" => fworst.0, "worst_count" => fcounts[fworst.0], "z" => fworst.1,
                "counts" => J::A(fcounts.iter().map(|c| J::U(*c)).collect())},
            );
        }
    }
    rep.count("positions_tested", tested);
    rep
}

/// Pushes concurrent with drains; capacity >= everything pushed, so every value must be yielded exactly once,
/// by a drain that overlaps its push or by the first drain called after its push returned.
fn run_overlap(a: &Args) -> Report {
    let mut rep = Report::new("C16", &a.leg, a.seed);
    let mut r = Rng::new(a.shard_seed());
    let trials = a.budget(3000, 300_000);
    let mut sigs = HashSet::new();
    let mut windows = 0u64;
    for t in 0..trials {
        let np = 1 + r.usize(4);
        let per = 1 + r.usize(12);
        let ndrains = 2 + r.usize(6);
        let res = Arc::new(AtomicSamplingReservoir::new(np * per + 4));
        let mode = t % 3;
        let mut rules = Vec::new();
        if mode == 0 {
            // pusher (role 1) is held after choosing its side until the drainer (role 0) completed its first drain
            let nth = 1 + r.below(per as u64) as u32;
            rules.push(Rule::new(1, "reservoir.push.after_side_load", nth, 0, "reservoir.drain.before_reset", 1));
            rules.push(Rule::new(0, "@start", 1, 1, "reservoir.push.after_side_load", nth));
        }
        let policy = match mode {
            0 => Policy::GateRandom(rules, 1, 4, 2),
            1 => Policy::Random { num: 1, den: 2, hold: 3 },
            _ => Policy::Off,
        };
        let ctx = Ctx::new(policy, true);
        let mut hs = Vec::new();
        for p in 0..np {
            let res = res.clone();
            let c = ctx.clone();
            hs.push(rt::spawn_role(&ctx, (1 + p) as u8, r.next_u64(), move || {
                let mut out = Vec::new();
                for i in 0..per {
                    let v = ((p + 1) * 1000 + i) as f64;
                    let call = c.stamp();
                    res.push(v);
                    let ret = c.stamp();
                    out.push((v, call, ret));
                }
                out
            }));
        }
        let res2 = res.clone();
        let c2 = ctx.clone();
        let dh = rt::spawn_role(&ctx, 0, r.next_u64(), move || {
            let mut out = Vec::new();
            for _ in 0..ndrains {
                let call = c2.stamp();
                let (got, rate, _) = drain_all(&res2);
                let ret = c2.stamp();
                out.push((call, ret, got, rate));
                std::thread::yield_now();
            }
            out
        });
        let mut pushes = Vec::new();
        for h in hs {
            pushes.extend(h.join().unwrap());
        }
        let mut drains = dh.join().unwrap();
        ctx.abort.store(true, Ordering::SeqCst);
        // quiescent drains: both sides
        for _ in 0..2 {
            let call = ctx.stamp();
            let (got, rate, _) = drain_all(&res);
            let ret = ctx.stamp();
            drains.push((call, ret, got, rate));
        }
        if ctx.expired.load(Ordering::SeqCst) > 0 {
            rep.inconclusive("gate expired");
            continue;
        }
        let evs = ctx.take_events();
        let sig = Ctx::signature(&evs, &|p| rt::POINTS[p as usize].starts_with("reservoir."));
        sigs.insert(sig);
        if mode == 0 && ctx.unsat.load(Ordering::SeqCst) == 0 {
            windows += 1;
        }
        let mut h = sig;
        for d in &drains {
            h = mix(h, d.0 ^ (d.2.len() as u64) << 32);
        }
        rep.case(h, true);
        let desc = jo! {"pushers" => np, "pushes_each" => per, "drains" => ndrains, "capacity" => np * per + 4, "schedule_mode" => mode};
        let pmap: HashMap<u64, (u64, u64)> = pushes.iter().map(|(v, c, r_)| (v.to_bits(), (*c, *r_))).collect();
        let mut yielded_by: HashMap<u64, Vec<usize>> = HashMap::new();
        // does some push interval overlap drain `di`? (an in-flight push is the listed known-finding class)
        let drain_overlapped = |di: usize| -> bool {
            let (dc, dr, _, _) = &drains[di];
            pushes.iter().any(|(_, pc, pr)| *dc < *pr && *dr > *pc)
        };
        for (di, (_, _, got, _)) in drains.iter().enumerate() {
            for v in got {
                yielded_by.entry(v.to_bits()).or_default().push(di);
                if !pmap.contains_key(&v.to_bits()) {
                    let sig = if drain_overlapped(di) { "C16:push-overlaps-drain" } else { "C16:fabricated-value" };
                    rep.violation(sig, jo! {"what" => "a drain yielded a bit pattern that was never pushed", "value" => *v, "a_push_was_in_flight_during_that_drain" => drain_overlapped(di), "trial" => desc.clone()});
                }
            }
        }
        for (vb, (pc, pr)) in &pmap {
            // the known class: this push itself overlaps a drain, or another push that was in flight across a drain is
            // still in flight while this one runs (a straggler that claimed its slot in an earlier cycle stores over it)
            let own_overlap = drains.iter().any(|(dc, dr, _, _)| *dc < *pr && *dr > *pc);
            let straggler = pushes.iter().any(|(ov, oc, or_)| ov.to_bits() != *vb && *oc < *pr && *or_ > *pc && drains.iter().any(|(dc, dr, _, _)| *dc < *or_ && *dr > *oc));
            let overlaps_drain = own_overlap || straggler;
            let ys = yielded_by.get(vb).cloned().unwrap_or_default();
            let v = f64::from_bits(*vb);
            if ys.len() > 1 {
                let sig = if overlaps_drain || ys.iter().any(|d| drain_overlapped(*d)) { "C16:push-overlaps-drain" } else { "C16:value-yielded-twice" };
                rep.violation(sig, jo! {"what" => "a value was yielded by more than one drain", "value" => v, "drains" => J::A(ys.iter().map(|d| J::U(*d as u64)).collect()), "push_or_a_concurrent_straggler_overlapped_a_drain" => overlaps_drain, "trial" => desc.clone()});
                continue;
            }
            // first drain called after the push returned
            let first_after = drains.iter().position(|(dc, _, _, _)| *dc > *pr);
            match ys.first() {
                None => {
                    let sig = if overlaps_drain { "C16:push-overlaps-drain" } else { "C16:value-lost" };
                    rep.violation(sig, jo! {"what" => "a pushed value was never yielded although no more than capacity were pushed", "value" => v, "push" => J::A(vec![J::U(*pc), J::U(*pr)]), "push_overlapped_a_drain" => overlaps_drain, "trial" => desc.clone()});
                }
                Some(di) => {
                    let (dc, dr, _, _) = &drains[*di];
                    let overlapping_this = *dc < *pr && *dr > *pc;
                    let ok = overlapping_this || Some(*di) == first_after;
                    if !ok {
                        let early = *dr < *pc;
                        let sig = if early { "C16:yielded-before-pushed" } else if overlaps_drain { "C16:push-overlaps-drain" } else { "C16:value-yielded-late" };
                        rep.violation(sig, jo! {"what" => "a value was yielded by a drain other than one overlapping its push or the first one after it", "value" => v, "push" => J::A(vec![J::U(*pc), J::U(*pr)]), "yielded_by_drain" => *di, "first_drain_after_push" => format!("{:?}", first_after), "push_overlapped_a_drain" => overlaps_drain, "trial" => desc.clone()});
                    }
                }
            }
        }
        if rep.want_sample() && t % 3 == 1 {
            rep.sample(jo! {"trial" => desc, "drain_sizes" => J::A(drains.iter().map(|d| J::U(d.2.len() as u64)).collect()), "hook_events" => evs.len()});
        }
    }
    rep.count("interleaving_signatures", sigs.len() as u64);
    rep.count("window:push-chose-side-then-drain-completed", windows);
    rep
}

/// Several consumers: a consume() that starts while another consumer is still inside its closure (holding the Drain)
/// must not hand out the side that is being drained. No push runs during any consume, so the known push/drain overlap
/// is not involved: every value pushed before must be yielded by exactly one drain.
/// Several threads pushing as fast as they can, no drain running: with room for everything, the next drain yields every
/// value once at rate 1; with less room, it reports capacity / pushed.
fn push_storm(a: &Args, rep: &mut Report, r: &mut Rng) {
    let rounds = a.budget(6, 200);
    for _ in 0..rounds {
        let nthreads = 2 + r.usize(6);
        let per = 5_000 + r.usize(20_000);
        let total = nthreads * per;
        let roomy = r.chance(1, 2);
        let cap = if roomy { total } else { 1000 };
        let res = Arc::new(AtomicSamplingReservoir::new(cap));
        let start = Arc::new(std::sync::Barrier::new(nthreads));
        let hs: Vec<_> = (0..nthreads)
            .map(|t| {
                let (res, start) = (res.clone(), start.clone());
                std::thread::spawn(move || {
                    start.wait();
                    for i in 0..per {
                        res.push((t * per + i) as f64);
                    }
                })
            })
            .collect();
        for h in hs {
            let _ = h.join();
        }
        let (got, rate, _) = drain_all(&res);
        rep.case(mix(total as u64, cap as u64), true);
        let distinct: HashSet<u64> = got.iter().map(|v| v.to_bits()).collect();
        let exp_len = cap.min(total);
        let exp_rate = exp_len as f64 / total as f64;
        if got.len() != exp_len || distinct.len() != got.len() || (rate - exp_rate).abs() > 1e-12 {
            rep.violation("C16:concurrent-pushes-miscounted", jo! {"what" => "after several threads pushed concurrently (no drain running) the drain does not yield min(capacity, pushed) distinct values at rate yielded / pushed", "threads" => nthreads, "pushed" => total, "capacity" => cap, "yielded" => got.len(), "distinct" => distinct.len(), "sample_rate" => rate, "expected_rate" => exp_rate});
        }
    }
}

/// Drains that are abandoned: the consumer reads only some of the values (or none, or only the rate) and returns. The
/// cycle ends all the same: later drains yield exactly what was pushed since, at the right rate.
fn abandoned_drains(a: &Args, rep: &mut Report, r: &mut Rng) {
    let trials = a.budget(300, 30_000);
    for _ in 0..trials {
        let cap = 2 + r.usize(8);
        let res = AtomicSamplingReservoir::new(cap);
        let mut next = 1.0f64;
        let mut trace: Vec<String> = Vec::new();
        let mut bad = None;
        for c in 0..(3 + r.usize(5)) {
            let n = r.usize(cap + 3);
            let mut pushed = Vec::new();
            for _ in 0..n {
                res.push(next);
                pushed.push(next);
                next += 1.0;
            }
            let take = match r.below(3) {
                0 => usize::MAX,       // read everything
                1 => r.usize(cap + 1), // read a few values, drop the rest
                _ => 0,                // look at the rate only
            };
            let mut got: Vec<f64> = Vec::new();
            let mut rate = 0.0;
            let mut len = 0;
            res.consume(|d| {
                rate = d.sample_rate();
                len = d.len();
                got.extend(d.take(take));
            });
            trace.push(format!("cycle {}: pushed {}, drain len {}, rate {}, consumer read {}", c, n, len, rate, got.len()));
            let exp_len = n.min(cap);
            let exp_rate = if n == 0 { 1.0 } else { exp_len as f64 / n as f64 };
            let stale = got.iter().any(|v| !pushed.contains(v));
            if len != exp_len || (n > 0 && (rate - exp_rate).abs() > 1e-12) || stale {
                bad = Some(format!("cycle {}: {} values pushed since the previous drain (capacity {}), drain reports len {} rate {} and yielded {:?}", c, n, cap, len, rate, got));
                break;
            }
        }
        rep.case(mix(cap as u64 + 500, fnv(format!("{:?}", trace).as_bytes())), true);
        if let Some(b) = bad {
            rep.violation("C16:cycle-not-ended-by-abandoned-drain", jo! {"what" => "after a drain that its consumer did not read to the end, a later drain does not cover exactly the values pushed since the previous drain", "detail" => b, "trace" => J::A(trace.iter().map(|t| J::s(t.clone())).collect())});
        }
    }
}

fn run_consumers(a: &Args) -> Report {
    use std::sync::mpsc;
    let mut rep = Report::new("C16", &a.leg, a.seed);
    let mut r = Rng::new(a.shard_seed());
    abandoned_drains(a, &mut rep, &mut r);
    push_inside_closure(a, &mut rep, &mut r);
    push_storm(a, &mut rep, &mut r);
    let trials = a.budget(60, 3000);
    for _ in 0..trials {
        let n = 1 + r.usize(12);
        let cap = n + r.usize(4);
        let extra = 1 + r.usize(3); // consumes issued by the second consumer while the first holds its drain
        let res = Arc::new(AtomicSamplingReservoir::new(cap));
        // an earlier cycle so that both sides have been used
        if r.chance(1, 2) {
            res.push(-1.0);
            let _ = drain_all(&res);
        }
        for i in 0..n {
            res.push((i + 1) as f64);
        }
        let (inside_tx, inside_rx) = mpsc::channel::<()>();
        let (done_tx, done_rx) = mpsc::channel::<()>();
        let resa = res.clone();
        let first = std::thread::spawn(move || {
            let mut got = Vec::new();
            resa.consume(|d| {
                inside_tx.send(()).ok();
                // stay inside until the second consumer finished or (when it is made to wait for us) a short while passed
                let _ = done_rx.recv_timeout(std::time::Duration::from_millis(15));
                got.extend(d);
            });
            got
        });
        inside_rx.recv().ok();
        let resb = res.clone();
        let second = std::thread::spawn(move || {
            let mut outs = Vec::new();
            for _ in 0..extra {
                outs.push(drain_all(&resb).0);
            }
            done_tx.send(()).ok();
            outs
        });
        let got_a = first.join().unwrap();
        let outs_b = second.join().unwrap();
        let tail = [drain_all(&res).0, drain_all(&res).0];
        let mut count: HashMap<u64, u32> = HashMap::new();
        for v in got_a.iter().chain(outs_b.iter().flatten()).chain(tail.iter().flatten()) {
            *count.entry(v.to_bits()).or_default() += 1;
        }
        rep.case(mix(mix(n as u64, cap as u64), extra as u64 ^ (got_a.len() as u64) << 8), true);
        let desc = jo! {"pushed_before" => n, "capacity" => cap, "consumes_by_second_consumer_meanwhile" => extra, "first_consumer_got" => got_a.len(), "second_consumer_got" => J::A(outs_b.iter().map(|o| J::U(o.len() as u64)).collect())};
        let mut bad = None;
        for i in 0..n {
            let c = count.get(&((i + 1) as f64).to_bits()).cloned().unwrap_or(0);
            if c != 1 {
                bad = Some(((i + 1) as f64, c));
                break;
            }
        }
        if let Some((v, c)) = bad {
            rep.violation(if c == 0 { "C16:value-lost:overlapping-consumers" } else { "C16:value-yielded-twice:overlapping-consumers" }, jo! {"what" => "with no push running during any consume, a value pushed before was not yielded exactly once when a second consumer called consume() while the first was still inside its closure", "value" => v, "times_yielded" => c as u64, "trial" => desc.clone()});
        }
        if count.keys().any(|k| { let v = f64::from_bits(*k); !(v >= 1.0 && v <= n as f64) }) {
            rep.violation("C16:fabricated-value", jo! {"what" => "a drain yielded a value that was not pushed in this cycle", "trial" => desc.clone()});
        }
        if rep.want_sample() {
            rep.sample(jo! {"overlapping_consumers" => true, "trial" => desc});
        }
    }
    rep
}

/// Pushes made from inside the consume() closure (after the sides were swapped, complete before the closure returns —
/// nothing is in flight across the swap): they belong to the next cycle and must be yielded by the next drain, with the
/// next drain's count, whether or not the drained side was empty.
fn push_inside_closure(a: &Args, rep: &mut Report, r: &mut Rng) {
    let trials = a.budget(300, 30_000);
    for _ in 0..trials {
        let cap = 2 + r.usize(10);
        let res = AtomicSamplingReservoir::new(cap);
        let cycles = 2 + r.usize(5);
        let mut next_val = 1.0f64;
        let mut pending: Vec<f64> = Vec::new(); // pushed, not yet yielded
        let mut trace: Vec<String> = Vec::new();
        let mut bad = None;
        for c in 0..=cycles {
            // pushes before the drain (possibly none: an empty drain)
            let before = if c == cycles { 0 } else { r.usize(3) };
            for _ in 0..before {
                if pending.len() < cap {
                    res.push(next_val);
                    pending.push(next_val);
                    next_val += 1.0;
                }
            }
            let inside = if c == cycles { 0 } else { r.usize(3) };
            let mut got: Vec<f64> = Vec::new();
            let mut rate = 0.0;
            let mut pushed_inside: Vec<f64> = Vec::new();
            res.consume(|d| {
                rate = d.sample_rate();
                for k in 0..inside {
                    if k + 1 < cap {
                        res.push(next_val);
                        pushed_inside.push(next_val);
                        next_val += 1.0;
                    }
                }
                got.extend(d);
            });
            trace.push(format!("cycle {}: {} pushed before, drain yielded {:?} (rate {}), {} pushed inside the closure", c, before, got, rate, pushed_inside.len()));
            let mut exp = pending.clone();
            exp.sort_by(|x, y| x.partial_cmp(y).unwrap());
            got.sort_by(|x, y| x.partial_cmp(y).unwrap());
            if got != exp {
                bad = Some(format!("drain of cycle {} yielded {:?}, expected {:?}", c, got, exp));
                break;
            }
            pending = pushed_inside;
        }
        rep.case(mix(cap as u64, fnv(format!("{:?}", trace).as_bytes())), true);
        if let Some(b) = bad {
            rep.violation("C16:value-pushed-inside-consume-closure-lost-or-misplaced", jo! {"what" => "values pushed from inside the consume() closure (after the swap, nothing in flight across it) were not yielded exactly once by the next drain", "detail" => b, "capacity" => cap, "trace" => J::A(trace.iter().map(|t| J::s(t.clone())).collect())});
        }
    }
}

/// Miri / TSan: no monitor synchronisation; pushes race with drains, quiescent conservation only.
fn run_small(a: &Args) -> Report {
    let mut rep = Report::new("C16", &a.leg, a.seed);
    let mut r = Rng::new(a.shard_seed());
    let miri = cfg!(miri);
    let trials = if miri { 3 } else { a.budget(2000, 100_000) };
    for _ in 0..trials {
        let np = 2;
        let per = if miri { 8 } else { 50 };
        let res = Arc::new(AtomicSamplingReservoir::new(np * per + 2));
        let mut hs = Vec::new();
        for p in 0..np {
            let res = res.clone();
            hs.push(std::thread::spawn(move || {
                for i in 0..per {
                    res.push(((p + 1) * 1000 + i) as f64);
                }
            }));
        }
        let res2 = res.clone();
        let dh = std::thread::spawn(move || {
            let mut n = 0;
            for _ in 0..4 {
                n += drain_all(&res2).0.len();
                std::thread::yield_now();
            }
            n
        });
        for h in hs {
            h.join().unwrap();
        }
        let mut total = dh.join().unwrap();
        total += drain_all(&res).0.len();
        total += drain_all(&res).0.len();
        rep.case(mix(r.next_u64(), total as u64), true);
        // conservation under overlap is a listed known finding natively; here only the tool's verdict matters
        if total > np * per {
            rep.violation("C16:more-than-pushed", jo! {"what" => "drains yielded more values than were pushed", "yielded" => total, "pushed" => np * per});
        }
        if rep.want_sample() {
            rep.sample(jo! {"pushers" => np, "pushes_each" => per, "yielded_total" => total});
        }
    }
    rep
}
