//! C06 — the registry keeps exactly one storage per metric kind and key.
use crate::doubles::KeyDesc;
use crate::lin::{self, HOp, LinResult};
use crate::props::c03;
use crate::rt::{self, fnv, mix, Args, Ctx, Policy, Report, Rng, Rule, J};
use metrics::{CounterFn, GaugeFn, HistogramFn, Key};
use metrics_util::registry::{Registry, Storage};
use std::collections::{BTreeMap, BTreeSet};
use std::sync::atomic::{AtomicU64, Ordering};
use std::sync::{Arc, Mutex};

pub struct Cell {
    pub id: u64,
    pub kind: u8,
    pub key: KeyDesc,
    pub value: AtomicU64,
}
impl CounterFn for Cell {
    fn increment(&self, v: u64) {
        self.value.fetch_add(v, Ordering::SeqCst);
    }
    fn absolute(&self, v: u64) {
        self.value.fetch_max(v, Ordering::SeqCst);
    }
}
impl GaugeFn for Cell {
    fn increment(&self, _: f64) {
        self.value.fetch_add(1, Ordering::SeqCst);
    }
    fn decrement(&self, _: f64) {
        self.value.fetch_add(1, Ordering::SeqCst);
    }
    fn set(&self, _: f64) {
        self.value.fetch_add(1, Ordering::SeqCst);
    }
}
impl HistogramFn for Cell {
    fn record(&self, _: f64) {
        self.value.fetch_add(1, Ordering::SeqCst);
    }
}

pub struct IdStorage {
    next: AtomicU64,
    constructed: Mutex<Vec<(u8, KeyDesc, u64)>>,
}
impl IdStorage {
    fn new() -> Self {
        IdStorage { next: AtomicU64::new(1), constructed: Mutex::new(Vec::new()) }
    }
    fn mk(&self, kind: u8, key: &Key) -> Arc<Cell> {
        let id = self.next.fetch_add(1, Ordering::SeqCst);
        let kd = KeyDesc::of(key).sorted();
        self.constructed.lock().unwrap().push((kind, kd.clone(), id));
        Arc::new(Cell { id, kind, key: kd, value: AtomicU64::new(0) })
    }
}
impl Storage<Key> for IdStorage {
    type Counter = Arc<Cell>;
    type Gauge = Arc<Cell>;
    type Histogram = Arc<Cell>;
    fn counter(&self, k: &Key) -> Arc<Cell> {
        self.mk(0, k)
    }
    fn gauge(&self, k: &Key) -> Arc<Cell> {
        self.mk(1, k)
    }
    fn histogram(&self, k: &Key) -> Arc<Cell> {
        self.mk(2, k)
    }
}

type Reg = Registry<Key, IdStorage>;

fn goc(reg: &Reg, kind: u8, k: &Key) -> (u64, u8, KeyDesc) {
    match kind {
        0 => reg.get_or_create_counter(k, |c| (c.id, c.kind, c.key.clone())),
        1 => reg.get_or_create_gauge(k, |c| (c.id, c.kind, c.key.clone())),
        _ => reg.get_or_create_histogram(k, |c| (c.id, c.kind, c.key.clone())),
    }
}
fn get(reg: &Reg, kind: u8, k: &Key) -> Option<u64> {
    match kind {
        0 => reg.get_counter(k).map(|c| c.id),
        1 => reg.get_gauge(k).map(|c| c.id),
        _ => reg.get_histogram(k).map(|c| c.id),
    }
}
fn del(reg: &Reg, kind: u8, k: &Key) -> bool {
    match kind {
        0 => reg.delete_counter(k),
        1 => reg.delete_gauge(k),
        _ => reg.delete_histogram(k),
    }
}

/// Listing through visit_* (sees duplicates) and get_*_handles.
fn listing(reg: &Reg, kind: u8) -> (Vec<(KeyDesc, u64)>, usize) {
    let mut v = Vec::new();
    match kind {
        0 => reg.visit_counters(|k, c| v.push((KeyDesc::of(k).sorted(), c.id))),
        1 => reg.visit_gauges(|k, c| v.push((KeyDesc::of(k).sorted(), c.id))),
        _ => reg.visit_histograms(|k, c| v.push((KeyDesc::of(k).sorted(), c.id))),
    }
    let n = match kind {
        0 => reg.get_counter_handles().len(),
        1 => reg.get_gauge_handles().len(),
        _ => reg.get_histogram_handles().len(),
    };
    v.sort();
    (v, n)
}

const NAMES: &[&str] = &["", "a", "b", "ab", "é"];
const LK: &[&str] = &["k", "l", "m", "é", "n", "o", "p", "q", "r"];
const LV: &[&str] = &["", "x", "y"];

fn gen_desc(r: &mut Rng) -> KeyDesc {
    let name = r.pick(NAMES).to_string();
    let n = *r.pick(&[0usize, 0, 1, 2, 2, 3, 5, 8, 9]);
    let mut ks = LK.to_vec();
    r.shuffle(&mut ks);
    let mut labels: Vec<(String, String)> = (0..n).map(|i| (ks[i].to_string(), r.pick(LV).to_string())).collect();
    if n == 2 && r.chance(1, 4) {
        labels[1].0 = labels[0].0.clone(); // two labels sharing a name: order-insensitive equality
    }
    KeyDesc { name, labels }
}

pub fn run(a: &Args) -> Option<Report> {
    match a.leg.as_str() {
        "seq" | "seq-1cpu" | "seq-3cpu" => Some(run_seq(a)),
        "race" | "race-1cpu" => Some(run_race(a)),
        "clone-race" => Some(run_clone_race(a)),
        "collide" => Some(run_collide(a)),
        "miri" | "tsan" => Some(run_race_small(a)),
        _ => None,
    }
}

/// Different keys that the maps must tell apart by equality alone: a two-label key carrying one label twice next to a
/// key sharing that label, chosen so that both fall into the same shard and carry the same 7-bit hash tag (the only
/// stored keys a lookup is ever compared with).
fn near_equal_keys(rep: &mut Report, r: &mut Rng, shards: usize) {
    use metrics::Label;
    for _ in 0..6 {
        let name = *r.pick(&["m", "req", "a.b"]);
        let (k, v) = (*r.pick(&["k", "zone"]), *r.pick(&["v", "eu", ""]));
        let twice = Key::from_parts(name, vec![Label::new(k, v), Label::new(k, v)]);
        let ht = twice.get_hash();
        let mut other = None;
        for w in 0..400_000u32 {
            let cand = Key::from_parts(name, vec![Label::new(k, v), Label::new(k, format!("w{}", w))]);
            let hc = cand.get_hash();
            if (hc as usize & (shards - 1)) == (ht as usize & (shards - 1)) && (hc >> 57) == (ht >> 57) {
                other = Some(cand);
                break;
            }
        }
        let other = match other {
            Some(o) => o,
            None => continue,
        };
        for order in 0..2 {
            let reg: Reg = Registry::new(IdStorage::new());
            let (first, second) = if order == 0 { (&other, &twice) } else { (&twice, &other) };
            let kind = r.below(3) as u8;
            let (id1, _, _) = goc(&reg, kind, first);
            let (id2, _, kd2) = goc(&reg, kind, second);
            let (l, _) = listing(&reg, kind);
            rep.case(mix(ht, order as u64 + 31 * kind as u64), true);
            if id1 == id2 || kd2 != KeyDesc::of(second).sorted() || l.len() != 2 || get(&reg, kind, first) != Some(id1) || get(&reg, kind, second) != Some(id2) {
                rep.violation("C06:storage-shared-between-keys", jo! {"what" => "two different keys (one carries a label twice, the other shares that label) that fall into the same shard with the same hash tag were given one storage / one entry", "first" => KeyDesc::of(first).to_json(), "second" => KeyDesc::of(second).to_json(), "storage_ids" => J::A(vec![J::U(id1), J::U(id2)]), "entries_listed" => l.len()});
            }
        }
    }
}

fn run_seq(a: &Args) -> Report {
    rt::quiet_panics();
    let mut rep = Report::new("C06", &a.leg, a.seed);
    let mut r = Rng::new(a.shard_seed());
    let hists = a.budget(1200, 120_000);
    let shards = std::thread::available_parallelism().map(|x| x.get()).unwrap_or(1).next_power_of_two();
    rep.count(&format!("registry_shards={}", shards), 1);
    near_equal_keys(&mut rep, &mut r, shards);
    for _ in 0..hists {
        let reg: Reg = Registry::new(IdStorage::new());
        let nbase = *r.pick(&[1usize, 2, 3, 6, 40, 300]);
        let bases: Vec<KeyDesc> = {
            let mut set = BTreeSet::new();
            let mut v = Vec::new();
            let mut tries = 0;
            while v.len() < nbase && tries < nbase * 20 {
                tries += 1;
                let mut d = gen_desc(&mut r);
                if nbase > 20 {
                    d.name = format!("{}{}", d.name, r.below(400));
                }
                if set.insert(d.sorted()) {
                    v.push(d);
                }
            }
            v
        };
        let mut model: BTreeMap<(u8, KeyDesc), u64> = BTreeMap::new();
        let mut dead: BTreeSet<u64> = BTreeSet::new();
        let nops = if nbase > 20 { 200 + r.usize(600) } else { 20 + r.usize(180) };
        let mut hh = nbase as u64;
        let mut trace: Vec<String> = Vec::new();
        let mut failed = false;
        let mut fail = |rep: &mut Report, sig: &str, what: String, trace: &Vec<String>| {
            rep.violation(sig, jo! {"what" => what, "shards" => shards, "history_tail" => J::A(trace.iter().rev().take(12).rev().map(|s| J::s(s.clone())).collect())});
        };
        for _ in 0..nops {
            if failed {
                break;
            }
            let kind = r.below(3) as u8;
            let mut d = r.pick(&bases).clone();
            r.shuffle(&mut d.labels); // equal key, permuted labels
            let path = r.below(c03::NPATHS);
            let key = c03::build(&mut r, &d, path);
            let canon = d.sorted();
            let op = r.below(20);
            hh = mix(hh, op * 4 + kind as u64);
            match op {
                0..=8 => {
                    let (id, k2, kd) = goc(&reg, kind, &key);
                    trace.push(format!("goc kind{} {:?} (path {}) -> #{}", kind, d, path, id));
                    match model.get(&(kind, canon.clone())) {
                        Some(exp) => {
                            if *exp != id {
                                fail(&mut rep, "C06:second-storage-for-live-key", format!("get_or_create on an equal key returned storage #{} while #{} is live", id, exp), &trace);
                                failed = true;
                            }
                        }
                        None => {
                            if dead.contains(&id) || model.values().any(|v| *v == id) {
                                fail(&mut rep, "C06:storage-shared-between-keys", format!("a new key was given storage #{} that belongs(ed) to another key/kind", id), &trace);
                                failed = true;
                            }
                            model.insert((kind, canon.clone()), id);
                        }
                    }
                    if k2 != kind || kd != canon {
                        fail(&mut rep, "C06:storage-shared-between-keys", "storage created for a different key or kind was returned".into(), &trace);
                        failed = true;
                    }
                }
                9..=11 => {
                    let g = get(&reg, kind, &key);
                    trace.push(format!("get kind{} {:?} -> {:?}", kind, d, g));
                    if g != model.get(&(kind, canon.clone())).cloned() {
                        fail(&mut rep, "C06:get-disagrees", format!("get returned {:?}, model {:?}", g, model.get(&(kind, canon.clone()))), &trace);
                        failed = true;
                    }
                }
                12..=14 => {
                    let b = del(&reg, kind, &key);
                    trace.push(format!("delete kind{} {:?} -> {}", kind, d, b));
                    let exp = model.remove(&(kind, canon.clone()));
                    if let Some(id) = exp {
                        dead.insert(id);
                    }
                    if b != exp.is_some() {
                        fail(&mut rep, "C06:delete-reports-wrongly", format!("delete returned {}, model says existed={}", b, exp.is_some()), &trace);
                        failed = true;
                    }
                }
                15 | 16 => {
                    // retain by id parity
                    let par = r.below(2);
                    match kind {
                        0 => reg.retain_counters(|_, c| c.id % 2 == par),
                        1 => reg.retain_gauges(|_, c| c.id % 2 == par),
                        _ => reg.retain_histograms(|_, c| c.id % 2 == par),
                    }
                    trace.push(format!("retain kind{} id%2=={}", kind, par));
                    let rm: Vec<(u8, KeyDesc)> = model.iter().filter(|((k, _), id)| *k == kind && **id % 2 != par).map(|(k, _)| k.clone()).collect();
                    for k in rm {
                        let id = model.remove(&k).unwrap();
                        dead.insert(id);
                    }
                }
                17 if r.chance(1, 2) => {
                    // the caller's closure panics (caught by the caller): on the creating path this happens while the
                    // registry holds the shard's write guard; the entry was inserted before and must stay a normal one
                    let res = rt::catch(|| match kind {
                        0 => reg.get_or_create_counter(&key, |_| -> u64 { panic!("op panics") }),
                        1 => reg.get_or_create_gauge(&key, |_| -> u64 { panic!("op panics") }),
                        _ => reg.get_or_create_histogram(&key, |_| -> u64 { panic!("op panics") }),
                    });
                    let _ = res;
                    trace.push(format!("goc kind{} {:?} with a panicking closure", kind, d));
                    if !model.contains_key(&(kind, canon.clone())) {
                        // learn the id of the storage that was created
                        match get(&reg, kind, &key) {
                            Some(id) => {
                                model.insert((kind, canon.clone()), id);
                            }
                            None => {
                                fail(&mut rep, "C06:get-disagrees", "after a get_or_create whose closure panicked the entry is not retrievable".into(), &trace);
                                failed = true;
                            }
                        }
                    }
                }
                17 if r.chance(1, 2) => {
                    reg.clear();
                    trace.push("clear".into());
                    for (_, id) in std::mem::take(&mut model) {
                        dead.insert(id);
                    }
                }
                _ => {
                    let (l, hn) = listing(&reg, kind);
                    trace.push(format!("list kind{} -> {} entries", kind, l.len()));
                    let mut exp: Vec<(KeyDesc, u64)> = model.iter().filter(|((k, _), _)| *k == kind).map(|((_, d), id)| (d.clone(), *id)).collect();
                    exp.sort();
                    if l != exp || hn != exp.len() {
                        let dup = l.windows(2).any(|w| w[0].0 == w[1].0);
                        fail(&mut rep, if dup { "C06:duplicate-entry-for-key" } else { "C06:listing-differs" }, format!("visit/get_handles report {} (handles map {}) entries, model has {}", l.len(), hn, exp.len()), &trace);
                        failed = true;
                    }
                }
            }
        }
        // final listing of every kind
        if !failed {
            for kind in 0..3u8 {
                let (l, hn) = listing(&reg, kind);
                let mut exp: Vec<(KeyDesc, u64)> = model.iter().filter(|((k, _), _)| *k == kind).map(|((_, d), id)| (d.clone(), *id)).collect();
                exp.sort();
                if l != exp || hn != exp.len() {
                    let dup = l.windows(2).any(|w| w[0].0 == w[1].0);
                    fail(&mut rep, if dup { "C06:duplicate-entry-for-key" } else { "C06:listing-differs" }, format!("final listing kind {}: {} entries (handles {}), model {}", kind, l.len(), hn, exp.len()), &trace);
                }
            }
        }
        rep.case(mix(hh, fnv(format!("{:?}", bases.first()).as_bytes())), nbase >= 2);
        if rep.want_sample() && nbase <= 6 {
            rep.sample(jo! {"keys" => nbase, "shards" => shards, "history_excerpt" => J::A(trace.iter().take(14).map(|s| J::s(s.clone())).collect())});
        }
    }
    rep
}

#[derive(Clone, Debug)]
enum ROp {
    Goc(u64),
    Get(Option<u64>),
    Del(bool),
}

fn lin_step(s: &(Option<u64>, u64), o: &ROp) -> Option<(Option<u64>, u64)> {
    // state: (live storage id, bitmask of ids ever used) — ids are small per history
    match o {
        ROp::Goc(id) => match s.0 {
            Some(x) => {
                if x == *id {
                    Some(*s)
                } else {
                    None
                }
            }
            None => {
                if s.1 & (1u64 << (id % 64)) != 0 {
                    None
                } else {
                    Some((Some(*id), s.1 | (1u64 << (id % 64))))
                }
            }
        },
        ROp::Get(g) => {
            if *g == s.0 {
                Some(*s)
            } else {
                None
            }
        }
        ROp::Del(b) => {
            if *b == s.0.is_some() {
                Some((None, s.1))
            } else {
                None
            }
        }
    }
}

/// clear() (and retain) called while another operation is parked inside its closure, i.e. while it holds a shard lock:
/// keys created before and not touched since must be gone once clear() has returned, whichever locks were busy.
fn clear_vs_lock_holder(a: &Args, rep: &mut Report, r: &mut Rng) {
    use std::sync::mpsc;
    let trials = a.budget(40, 1600);
    for _ in 0..trials {
        let reg: Arc<Reg> = Arc::new(Registry::new(IdStorage::new()));
        let nkeys = 6 + r.usize(30);
        let keys: Vec<(u8, Key)> = (0..nkeys).map(|i| ((r.below(3)) as u8, Key::from_name(format!("k{}", i)))).collect();
        for (kind, k) in &keys {
            let _ = goc(&reg, *kind, k);
        }
        // the parked operation: get_or_create on an existing key (read lock) or on a new key (write lock)
        let existing = r.chance(1, 2);
        let (hk, hkey) = if existing { keys[0].clone() } else { (r.below(3) as u8, Key::from_name("fresh")) };
        let use_retain = r.chance(1, 3);
        let (inside_tx, inside_rx) = mpsc::channel::<()>();
        let (go_tx, go_rx) = mpsc::channel::<()>();
        let rega = reg.clone();
        let hkey2 = hkey.clone();
        let holder = std::thread::spawn(move || {
            let f = |c: &Arc<Cell>| {
                inside_tx.send(()).ok();
                let _ = go_rx.recv_timeout(std::time::Duration::from_millis(15));
                // the operation itself: it acts on the storage it was handed
                c.value.fetch_add(1, Ordering::SeqCst);
                c.id
            };
            match hk {
                0 => rega.get_or_create_counter(&hkey2, f),
                1 => rega.get_or_create_gauge(&hkey2, f),
                _ => rega.get_or_create_histogram(&hkey2, f),
            }
        });
        inside_rx.recv().ok();
        let regb = reg.clone();
        let hkey3 = hkey.clone();
        let clearer = std::thread::spawn(move || {
            // the storage the parked operation works on, as the registry hands it out before the removal
            let handle: Option<Arc<Cell>> = match hk {
                0 => regb.get_counter(&hkey3),
                1 => regb.get_gauge(&hkey3),
                _ => regb.get_histogram(&hkey3),
            };
            if use_retain {
                regb.retain_counters(|_, _| false);
                regb.retain_gauges(|_, _| false);
                regb.retain_histograms(|_, _| false);
            } else {
                regb.clear();
            }
            // the removal has completed: whatever operated on that storage has done so by now
            let at_removal = handle.as_ref().map(|h| h.value.load(Ordering::SeqCst));
            go_tx.send(()).ok();
            (handle, at_removal)
        });
        let (handle, at_removal) = clearer.join().unwrap();
        let _ = holder.join().unwrap();
        if let (Some(h), Some(v0)) = (&handle, at_removal) {
            let v1 = h.value.load(Ordering::SeqCst);
            if v1 != v0 {
                rep.violation(
                    "C06:operation-on-storage-after-its-removal-completed",
                    jo! {"what" => "a get_or_create closure operated on a storage after clear()/retain(false), which removed that storage, had returned (operations on a key's storage and its removal are not mutually exclusive)",
                    "removed_by" => if use_retain { "retain_*(|_, _| false)" } else { "clear()" }, "parked_operation" => if existing { "get_or_create on an existing key" } else { "get_or_create creating a new key" }, "value_when_removal_returned" => v0, "value_afterwards" => v1},
                );
            }
        }
        // keys with no operation since their creation (everything but the parked one)
        let survivors: Vec<String> = keys.iter().filter(|(kind, k)| !(existing && *kind == hk && *k == hkey)).filter(|(kind, k)| get(&reg, *kind, k).is_some()).map(|(kind, k)| format!("kind{} {}", kind, k.name())).collect();
        rep.case(mix(nkeys as u64, (existing as u64) << 8 | (use_retain as u64) << 9 | (hk as u64) << 10), true);
        if !survivors.is_empty() {
            rep.violation(
                "C06:entry-survived-clear",
                jo! {"what" => "clear()/retain(false) returned, yet keys created before it was called (and not touched since) are still live with their old storage; another operation was parked inside its get_or_create closure (holding a shard lock) at the time",
                "removed_by" => if use_retain { "retain_*(|_, _| false)" } else { "clear()" }, "parked_operation" => if existing { "get_or_create on an existing key" } else { "get_or_create creating a new key" }, "keys" => nkeys, "survivors" => J::A(survivors.iter().take(8).map(|x| J::s(x.clone())).collect())},
            );
        }
        if rep.want_sample() {
            rep.sample(jo! {"clear_vs_lock_holder" => true, "keys" => nkeys, "parked_on_existing_key" => existing, "retain" => use_retain});
        }
    }
}

/// A lazily hashed key (what the macros' static call-site keys are) shared by two threads on its first use: one looks
/// it up directly (first get_hash), the other clones it at that moment and looks the clone up. Both must get the same
/// storage, and the quiescent listing shows the key once. Spin-synchronised rounds, no hooks: the window is inside
/// Key::clone / get_hash.
fn run_clone_race(a: &Args) -> Report {
    use std::sync::atomic::AtomicUsize;
    let mut rep = Report::new("C06", &a.leg, a.seed);
    let rounds = a.budget(400_000, 8_000_000) as usize;
    let reg: Arc<Reg> = Arc::new(Registry::new(IdStorage::new()));
    let keys: Arc<Vec<AtomicUsize>> = Arc::new((0..2).map(|_| AtomicUsize::new(0)).collect()); // current round's key pointer, per parity
    let round = Arc::new(AtomicU64::new(0));
    let done = Arc::new(AtomicU64::new(0));
    let mismatch: Arc<Mutex<Vec<(u64, u64, u64, u64)>>> = Arc::new(Mutex::new(Vec::new()));
    let ids: Arc<Vec<AtomicU64>> = Arc::new((0..2).map(|_| AtomicU64::new(0)).collect());
    let mut hs = Vec::new();
    for t in 0..2u64 {
        let (reg, keys, round, done, ids) = (reg.clone(), keys.clone(), round.clone(), done.clone(), ids.clone());
        hs.push(std::thread::spawn(move || {
            let mut k = 1u64;
            loop {
                let mut spins = 0u32;
                loop {
                    let cur = round.load(Ordering::Acquire);
                    if cur == u64::MAX {
                        return;
                    }
                    if cur >= k {
                        break;
                    }
                    spins += 1;
                    if spins % 2048 == 0 {
                        std::thread::yield_now();
                    }
                }
                let key: &'static Key = unsafe { &*(keys[(k % 2) as usize].load(Ordering::Acquire) as *const Key) };
                let id = if t == 0 {
                    reg.get_or_create_counter(key, |c| c.id)
                } else {
                    let cl = key.clone();
                    reg.get_or_create_counter(&cl, |c| c.id)
                };
                ids[t as usize].store(id, Ordering::Release);
                done.fetch_add(1, Ordering::AcqRel);
                k += 1;
            }
        }));
    }
    let mut checked = 0u64;
    for k in 1..=rounds as u64 {
        // a fresh, never-hashed key with static parts (leaked on purpose: static call-site keys live for ever)
        let name: &'static str = Box::leak(format!("k{}", k).into_boxed_str());
        let key: &'static Key = Box::leak(Box::new(if k % 3 == 0 { Key::from_static_name(name) } else { Key::from_static_parts(name, &LBL) }));
        keys[(k % 2) as usize].store(key as *const Key as usize, Ordering::Release);
        round.store(k, Ordering::Release);
        let mut spins = 0u32;
        while done.load(Ordering::Acquire) < 2 * k {
            spins += 1;
            if spins % 2048 == 0 {
                std::thread::yield_now();
            }
        }
        let (a0, a1) = (ids[0].load(Ordering::Acquire), ids[1].load(Ordering::Acquire));
        checked += 1;
        if a0 != a1 {
            let mut m = mismatch.lock().unwrap();
            if m.len() < 5 {
                m.push((k, a0, a1, key.get_hash()));
            }
        }
    }
    round.store(u64::MAX, Ordering::Release);
    for h in hs {
        let _ = h.join();
    }
    let (l, hn) = listing(&reg, 0);
    rep.count("rounds", checked);
    rep.case(mix(checked, l.len() as u64), true);
    let m = mismatch.lock().unwrap();
    if !m.is_empty() {
        rep.violation("C06:second-storage-for-live-key:clone-during-first-hash", jo! {"what" => "a key and a clone of it taken while another thread hashed the key for the first time were given different storages by get_or_create_counter", "rounds" => checked,
        "examples" => J::A(m.iter().map(|(k, a0, a1, h)| J::s(format!("round {}: storage {} vs {} (key hash {:#x})", k, a0, a1, h))).collect())});
    }
    if l.len() as u64 != checked || hn != l.len() {
        rep.violation("C06:duplicate-entry-for-key", jo! {"what" => "quiescent listing does not show each key exactly once", "keys" => checked, "entries" => l.len(), "handles" => hn});
    }
    rep.sample(jo! {"clone_race_rounds" => checked, "entries_at_quiescence" => l.len()});
    rep
}

static LBL: [metrics::Label; 1] = [metrics::Label::from_static_parts("svc", "a")];

// ------------------------------------------------------------------------------------------
// Keys whose hashes collide: the registry is generic over `K: Eq + Hashable`; with a key type whose hash covers only
// part of the key, different keys share hashes (and shards) all the time, and equality alone must keep them apart.
// ------------------------------------------------------------------------------------------
#[derive(Clone, Debug, PartialEq, Eq, PartialOrd, Ord)]
struct CoarseKey {
    name: u8,
    tag: u8,
}
impl std::hash::Hash for CoarseKey {
    fn hash<H: std::hash::Hasher>(&self, h: &mut H) {
        // only the name: keys differing in `tag` collide
        h.write_u8(self.name % 3);
    }
}
impl metrics_util::Hashable for CoarseKey {
    // the registry's shard maps always hash with metrics' KeyHasher (also when they grow), so a key type has to name
    // that hasher for `hashable()` and the maps to agree; see DESIGN §7
    type Hasher = metrics::KeyHasher;
}
struct CkStorage {
    next: AtomicU64,
}
impl CkStorage {
    fn mk(&self, kind: u8, k: &CoarseKey) -> Arc<Cell> {
        let id = self.next.fetch_add(1, Ordering::SeqCst);
        Arc::new(Cell { id, kind, key: KeyDesc { name: format!("{}/{}", k.name, k.tag), labels: vec![] }, value: AtomicU64::new(0) })
    }
}
impl Storage<CoarseKey> for CkStorage {
    type Counter = Arc<Cell>;
    type Gauge = Arc<Cell>;
    type Histogram = Arc<Cell>;
    fn counter(&self, k: &CoarseKey) -> Arc<Cell> {
        self.mk(0, k)
    }
    fn gauge(&self, k: &CoarseKey) -> Arc<Cell> {
        self.mk(1, k)
    }
    fn histogram(&self, k: &CoarseKey) -> Arc<Cell> {
        self.mk(2, k)
    }
}

fn run_collide(a: &Args) -> Report {
    let mut rep = Report::new("C06", &a.leg, a.seed);
    let mut r = Rng::new(a.shard_seed());
    let n = a.budget(1500, 150_000);
    for _ in 0..n {
        let reg: Registry<CoarseKey, CkStorage> = Registry::new(CkStorage { next: AtomicU64::new(1) });
        let mut model: BTreeMap<(u8, CoarseKey), u64> = BTreeMap::new();
        let mut trace: Vec<String> = Vec::new();
        let steps = 4 + r.usize(40);
        let mut h = 0u64;
        let mut bad: Option<(String, String)> = None;
        for _ in 0..steps {
            let kind = r.below(3) as u8;
            let k = CoarseKey { name: r.below(4) as u8, tag: r.below(3) as u8 };
            let op = r.below(8);
            h = mix(h, op ^ (kind as u64) << 4 ^ (k.name as u64) << 8 ^ (k.tag as u64) << 12);
            match op {
                0..=3 => {
                    let (id, ckind, ckey) = match kind {
                        0 => reg.get_or_create_counter(&k, |c| (c.id, c.kind, c.key.name.clone())),
                        1 => reg.get_or_create_gauge(&k, |c| (c.id, c.kind, c.key.name.clone())),
                        _ => reg.get_or_create_histogram(&k, |c| (c.id, c.kind, c.key.name.clone())),
                    };
                    trace.push(format!("get_or_create kind{} {:?} -> storage {} (made for kind{} {})", kind, k, id, ckind, ckey));
                    let want_name = format!("{}/{}", k.name, k.tag);
                    match model.get(&(kind, k.clone())) {
                        Some(x) if *x == id => {}
                        Some(x) => bad = Some(("C06:second-storage-for-live-key".into(), format!("live key got storage {} although {} exists", id, x))),
                        None => {
                            if ckind != kind || ckey != want_name || model.values().any(|v| *v == id) {
                                bad = Some(("C06:storage-shared-between-keys".into(), format!("a new key was handed storage {} made for kind{} {}", id, ckind, ckey)));
                            } else {
                                model.insert((kind, k.clone()), id);
                            }
                        }
                    }
                }
                4 | 5 => {
                    let g = match kind {
                        0 => reg.get_counter(&k).map(|c| c.id),
                        1 => reg.get_gauge(&k).map(|c| c.id),
                        _ => reg.get_histogram(&k).map(|c| c.id),
                    };
                    trace.push(format!("get kind{} {:?} -> {:?}", kind, k, g));
                    if g != model.get(&(kind, k.clone())).cloned() {
                        bad = Some(("C06:get-disagrees".into(), format!("get returned {:?}, model {:?}", g, model.get(&(kind, k.clone())))));
                    }
                }
                6 => {
                    let d = match kind {
                        0 => reg.delete_counter(&k),
                        1 => reg.delete_gauge(&k),
                        _ => reg.delete_histogram(&k),
                    };
                    trace.push(format!("delete kind{} {:?} -> {}", kind, k, d));
                    if d != model.remove(&(kind, k.clone())).is_some() {
                        bad = Some(("C06:delete-reports-wrong-existence".into(), "delete's result disagrees with whether the key was live".into()));
                    }
                }
                _ => {
                    let mut listed: Vec<(CoarseKey, u64)> = match kind {
                        0 => reg.get_counter_handles().into_iter().map(|(k, c)| (k, c.id)).collect(),
                        1 => reg.get_gauge_handles().into_iter().map(|(k, c)| (k, c.id)).collect(),
                        _ => reg.get_histogram_handles().into_iter().map(|(k, c)| (k, c.id)).collect(),
                    };
                    listed.sort();
                    let exp: Vec<(CoarseKey, u64)> = model.iter().filter(|((kd, _), _)| *kd == kind).map(|((_, k), id)| (k.clone(), *id)).collect();
                    trace.push(format!("handles kind{} -> {} entries", kind, listed.len()));
                    if listed != exp {
                        bad = Some(("C06:listing-differs".into(), format!("listed {:?}, expected {:?}", listed, exp)));
                    }
                }
            }
            if bad.is_some() {
                break;
            }
        }
        rep.case(h, model.len() >= 2);
        if let Some((sig, what)) = bad {
            rep.violation(format!("{}:colliding-hashes", sig), jo! {"what" => what, "key_type" => "custom key whose Hash covers only part of the key (different keys collide)", "history_tail" => J::A(trace.iter().rev().take(12).rev().map(|t| J::s(t.clone())).collect())});
        } else if rep.want_sample() && trace.len() > 10 {
            rep.sample(jo! {"colliding_key_type" => true, "history_excerpt" => J::A(trace.iter().take(12).map(|t| J::s(t.clone())).collect())});
        }
    }
    rep
}

fn run_race(a: &Args) -> Report {
    let mut rep = Report::new("C06", &a.leg, a.seed);
    let mut r = Rng::new(a.shard_seed());
    clear_vs_lock_holder(a, &mut rep, &mut r);
    let trials = a.budget(3000, 300_000);
    let mut sigs = std::collections::HashSet::new();
    let mut windows = 0u64;
    for t in 0..trials {
        let reg: Arc<Reg> = Arc::new(Registry::new(IdStorage::new()));
        let nkeys = 1 + r.usize(3);
        let descs: Vec<KeyDesc> = {
            let mut set = BTreeSet::new();
            let mut v = Vec::new();
            while v.len() < nkeys {
                let d = gen_desc(&mut r);
                if set.insert(d.sorted()) {
                    v.push(d);
                }
            }
            v
        };
        let nthreads = 2 + r.usize(4);
        let per = 1 + r.usize(3);
        let mode = t % 3;
        let forced_kind = ((t / 3) % 3) as u8;
        let mut rules = Vec::new();
        if mode == 0 {
            // role 0 misses under the read lock and is held before taking the write lock until role 1 finished
            rules.push(Rule::new(0, "registry.goc.between_locks", 1, 1, "@done", 1));
            rules.push(Rule::new(1, "@start", 1, 0, "registry.goc.between_locks", 1));
        }
        let policy = match mode {
            0 => Policy::GateRandom(rules, 1, 4, 2),
            1 => Policy::Random { num: 1, den: 2, hold: 2 },
            _ => Policy::Off,
        };
        let ctx = Ctx::new(policy, true);
        let mut hs = Vec::new();
        for th in 0..nthreads {
            let reg = reg.clone();
            let descs = descs.clone();
            let seed = r.next_u64();
            let c = ctx.clone();
            hs.push(rt::spawn_role(&ctx, th as u8, seed, move || {
                let mut r = Rng::new(seed);
                let mut out: Vec<(usize, u8, HOp<ROp>)> = Vec::new();
                for i in 0..per {
                    let ki = if mode == 0 && i == 0 { 0 } else { r.usize(descs.len()) };
                    let kind = if mode == 0 && i == 0 { forced_kind } else { r.below(3) as u8 };
                    let mut d = descs[ki].clone();
                    r.shuffle(&mut d.labels);
                    let path = r.below(c03::NPATHS);
                    let key = c03::build(&mut r, &d, path);
                    let which = if mode == 0 && i == 0 { 0 } else { r.below(6) };
                    let call = c.stamp();
                    let op = match which {
                        0..=2 => {
                            let (id, k2, kd) = goc(&reg, kind, &key);
                            if k2 != kind || kd != d.sorted() {
                                ROp::Goc(u64::MAX)
                            } else {
                                ROp::Goc(id)
                            }
                        }
                        3 => ROp::Get(get(&reg, kind, &key)),
                        _ => ROp::Del(del(&reg, kind, &key)),
                    };
                    let ret = c.stamp();
                    out.push((ki, kind, HOp { call, ret, op }));
                }
                out
            }));
        }
        let mut all: Vec<(usize, u8, HOp<ROp>)> = Vec::new();
        for h in hs {
            all.extend(h.join().unwrap());
        }
        ctx.abort.store(true, Ordering::SeqCst);
        if ctx.expired.load(Ordering::SeqCst) > 0 {
            rep.inconclusive("gate expired");
            continue;
        }
        let evs = ctx.take_events();
        let sig = Ctx::signature(&evs, &|p| rt::POINTS[p as usize].starts_with("registry."));
        sigs.insert(sig);
        if mode == 0 && ctx.unsat.load(Ordering::SeqCst) == 0 {
            windows += 1;
        }
        // quiescent observation per key/kind appended as a final Get
        let mut hcase = sig;
        for ki in 0..nkeys {
            for kind in 0..3u8 {
                let mut ops: Vec<HOp<ROp>> = all.iter().filter(|(k, kd, _)| *k == ki && *kd == kind).map(|(_, _, o)| o.clone()).collect();
                if ops.is_empty() {
                    continue;
                }
                let key = descs[ki].to_key();
                let call = ctx.stamp();
                let g = get(&reg, kind, &key);
                let ret = ctx.stamp();
                ops.push(HOp { call, ret, op: ROp::Get(g) });
                for o in &ops {
                    hcase = mix(hcase, o.call ^ o.ret << 24);
                }
                if ops.iter().any(|o| matches!(o.op, ROp::Goc(u64::MAX))) {
                    rep.violation("C06:storage-shared-between-keys", jo! {"what" => "get_or_create returned a storage created for a different key or kind", "key" => descs[ki].to_json()});
                    continue;
                }
                if ops.len() > 20 {
                    rep.inconclusive("history too long for the checker");
                    continue;
                }
                match lin::check((None, 0u64), &ops, &lin_step, 300_000) {
                    LinResult::Linearizable => {}
                    LinResult::Budget => rep.inconclusive("linearizability budget"),
                    LinResult::NotLinearizable => {
                        let two_live = {
                            let ids: BTreeSet<u64> = ops.iter().filter_map(|o| if let ROp::Goc(i) = o.op { Some(i) } else { None }).collect();
                            let dels = ops.iter().filter(|o| matches!(o.op, ROp::Del(true))).count();
                            ids.len() > dels + 1
                        };
                        rep.violation(
                            if two_live { "C06:second-storage-for-live-key" } else { "C06:key-history-not-linearizable" },
                            jo! {"what" => "the operations on one (kind, key) have no linearization as a single atomic map entry", "key" => descs[ki].to_json(), "kind" => kind as u64, "schedule_mode" => mode,
                            "history" => J::A(ops.iter().map(|o| J::s(format!("[{}..{}] {:?}", o.call, o.ret, o.op))).collect())},
                        );
                    }
                }
            }
        }
        // listing at quiescence: each live key once
        for kind in 0..3u8 {
            let (l, hn) = listing(&reg, kind);
            let dup = l.windows(2).any(|w| w[0].0 == w[1].0);
            if dup || hn != l.len() {
                rep.violation("C06:duplicate-entry-for-key", jo! {"what" => "quiescent listing shows a key twice", "kind" => kind as u64, "entries" => l.len(), "handles" => hn});
            }
        }
        rep.case(hcase, nthreads >= 2);
        if rep.want_sample() && t % 3 == 0 {
            rep.sample(jo! {"threads" => nthreads, "keys" => nkeys, "ops_each" => per, "mode" => mode, "ops" => J::A(all.iter().take(12).map(|(k, kd, o)| J::s(format!("key{} kind{} [{}..{}] {:?}", k, kd, o.call, o.ret, o.op))).collect())});
        }
    }
    rep.count("interleaving_signatures", sigs.len() as u64);
    rep.count("window:creator-held-between-read-unlock-and-write-lock", windows);
    rep
}

/// Miri / TSan: no monitor synchronisation; order-free oracle (one storage per live key at quiescence, sums conserved).
fn run_race_small(a: &Args) -> Report {
    let mut rep = Report::new("C06", &a.leg, a.seed);
    let mut r = Rng::new(a.shard_seed());
    let miri = cfg!(miri);
    let trials = if miri { 3 } else { a.budget(2000, 100_000) };
    for _ in 0..trials {
        let reg: Arc<Reg> = Arc::new(Registry::new(IdStorage::new()));
        let d = gen_desc(&mut r);
        let nthreads = if miri { 3 } else { 2 + r.usize(6) };
        let per = if miri { 6 } else { 20 };
        let mut hs = Vec::new();
        for _ in 0..nthreads {
            let reg = reg.clone();
            let d = d.clone();
            let seed = r.next_u64();
            hs.push(std::thread::spawn(move || {
                let mut r = Rng::new(seed);
                let mut ids = BTreeSet::new();
                for _ in 0..per {
                    let mut dd = d.clone();
                    r.shuffle(&mut dd.labels);
                    let path = r.below(c03::NPATHS);
                    let key = c03::build(&mut r, &dd, path);
                    let id = reg.get_or_create_counter(&key, |c| {
                        CounterFn::increment(&**c, 1);
                        c.id
                    });
                    ids.insert(id);
                }
                ids
            }));
        }
        let mut ids = BTreeSet::new();
        for h in hs {
            ids.extend(h.join().unwrap());
        }
        let total = reg.get_counter(&d.to_key()).map(|c| c.value.load(Ordering::SeqCst));
        rep.case(mix(fnv(format!("{:?}", d).as_bytes()), nthreads as u64), true);
        if ids.len() != 1 || total != Some((nthreads * per) as u64) {
            rep.violation("C06:second-storage-for-live-key", jo! {"what" => "racing get_or_create calls on one key used more than one storage (or lost updates)", "storages" => ids.len(), "sum" => format!("{:?}", total), "expected_sum" => nthreads * per});
        }
        if rep.want_sample() {
            rep.sample(jo! {"key" => d.to_json(), "threads" => nthreads, "ops_each" => per, "storages_used" => ids.len()});
        }
    }
    rep
}
