//! C10 — DogStatsD aggregation conserves counts across flushes under any interleaving.
use crate::dsdparse::{self, Msg};
use crate::rt::{self, fnv, mix, Args, Ctx, Policy, Report, Rng, Rule, J};
use metrics::{Key, Label, Level, Metadata, Recorder};
use metrics_exporter_dogstatsd::verif::Driver;
use metrics_exporter_dogstatsd::{AggregationMode, DogStatsDBuilder};
use std::collections::{HashMap, HashSet};
use std::io::Read;
use std::sync::atomic::{AtomicBool, Ordering};
use std::sync::Arc;
use std::time::{Duration, Instant};

static MD: Metadata<'static> = Metadata::new("c10", Level::INFO, None);

pub fn run(a: &Args) -> Option<Report> {
    match a.leg.as_str() {
        "flush" => Some(run_flush(a)),
        "socket" => Some(run_socket(a)),
        "miri" | "tsan" => Some(run_small(a)),
        _ => None,
    }
}

struct Flush {
    call: u64,
    ret: u64,
    msgs: Vec<Msg>,
}

fn decode(payloads: &[Vec<u8>], lp: bool) -> Result<Vec<Msg>, String> {
    let mut out = Vec::new();
    for p in payloads {
        let body: &[u8] = if lp {
            if p.len() < 4 {
                return Err("short length-prefixed payload".into());
            }
            let l = u32::from_le_bytes([p[0], p[1], p[2], p[3]]) as usize;
            if l != p.len() - 4 {
                return Err(format!("length header {} != body {}", l, p.len() - 4));
            }
            &p[4..]
        } else {
            &p[..]
        };
        out.push(dsdparse::parse(body)?);
    }
    Ok(out)
}

const COUNTER_POINTS: &[&str] = &["dsd.counter.inc.after_mode_store", "dsd.counter.inc.after_current_add"];
const ABS_POINTS: &[&str] = &["dsd.counter.abs.after_mode_swap", "dsd.counter.abs.after_last_store", "dsd.counter.abs.after_current_store"];
const FLUSH_POINTS: &[&str] = &["dsd.counter.flush.after_current_load", "dsd.counter.flush.after_last_swap", "dsd.counter.flush.after_updates_swap", "dsd.gauge.flush.after_value_load"];

/// One counter first driven by increments, then (after a flush) by absolute values: sequential, no races. The
/// increments are accounted for before the switch; after it, the first absolute value is the baseline (nothing was
/// added yet) and every later delta is the advance of the absolute value since the previous flush — no delta may
/// exceed that, whatever total the increments had reached.
fn mixed_mode(a: &Args, rep: &mut Report, r: &mut Rng) {
    let trials = a.budget(300, 30_000);
    for _ in 0..trials {
        let aggressive = r.chance(1, 2);
        let lp = r.chance(1, 2);
        let mut driver = Driver::new(aggressive, false, 16, r.chance(1, 2), vec![], None, 8192, lp);
        let rec = driver.recorder();
        let c = rec.register_counter(&Key::from_name("cmix"), &MD);
        let mut trace: Vec<String> = Vec::new();
        let mut bad: Option<(String, String)> = None;
        let mut flush_delta = |driver: &mut Driver, trace: &mut Vec<String>| -> Result<Option<u64>, String> {
            let payloads = rt::catch(|| driver.flush()).map_err(|m| format!("flush panicked: {}", m))?;
            let msgs = decode(&payloads, lp)?;
            let mut d = None;
            for m in msgs.iter().filter(|m| m.name == "cmix") {
                let v: u64 = m.values.first().and_then(|x| x.parse().ok()).ok_or("counter value not an integer")?;
                d = Some(d.unwrap_or(0) + v);
            }
            trace.push(format!("flush -> {:?}", d));
            Ok(d)
        };
        // phase 1: increments
        let mut total = 0u64;
        for _ in 0..(1 + r.usize(4)) {
            let k = 1 + r.below(100);
            c.increment(k);
            total += k;
            trace.push(format!("increment({})", k));
        }
        let mut sent1 = 0u64;
        for _ in 0..(1 + r.usize(2)) {
            match flush_delta(&mut driver, &mut trace) {
                Ok(d) => sent1 += d.unwrap_or(0),
                Err(e) => bad = Some(("C10:undecodable-flush-output".into(), e)),
            }
        }
        if bad.is_none() && sent1 != total {
            bad = Some(("C10:counter-sum-differs".into(), format!("increments total {}, deltas sent {}", total, sent1)));
        }
        // phase 2: absolute values, starting below, at or above the total reached by increments
        let mut v = match r.below(3) {
            0 => r.below(total.max(1)),
            1 => total,
            _ => total + 1 + r.below(100),
        };
        let first = v;
        let mut at_prev_flush = v; // absolute value accounted for so far (baseline at first)
        c.absolute(v);
        trace.push(format!("absolute({}) [first absolute value: baseline]", v));
        let mut sent2 = 0u64;
        for _ in 0..(2 + r.usize(4)) {
            if bad.is_some() {
                break;
            }
            for _ in 0..r.usize(3) {
                v += r.below(20);
                c.absolute(v);
                trace.push(format!("absolute({})", v));
            }
            match flush_delta(&mut driver, &mut trace) {
                Ok(d) => {
                    let d = d.unwrap_or(0);
                    if d > v - at_prev_flush {
                        bad = Some(("C10:delta-exceeds-what-was-added:after-switch-to-absolute".into(), format!("a delta of {} was sent although the absolute value advanced by only {} since the previous flush", d, v - at_prev_flush)));
                    }
                    sent2 += d;
                    at_prev_flush = v;
                }
                Err(e) => bad = Some(("C10:undecodable-flush-output".into(), e)),
            }
        }
        if bad.is_none() && sent2 != v - first {
            bad = Some(("C10:counter-sum-differs:after-switch-to-absolute".into(), format!("absolute values went from {} to {}, deltas sent add up to {}", first, v, sent2)));
        }
        rep.case(mix(mix(total, first), v ^ (aggressive as u64) << 60), true);
        if let Some((sig, what)) = bad {
            rep.violation(sig, jo! {"what" => what, "history" => J::A(trace.iter().map(|t| J::s(t.clone())).collect()), "mode" => if aggressive {"aggressive"} else {"conservative"}});
        } else if rep.want_sample() {
            rep.sample(jo! {"mixed_mode_counter" => true, "history" => J::A(trace.iter().take(14).map(|t| J::s(t.clone())).collect())});
        }
    }
}

/// Two counters sharing a name and differing in labels, with differing activity: each key on its own sends its deltas,
/// one zero when it goes quiet, and then nothing until it changes again (sequential, no races).
fn same_name_counters(a: &Args, rep: &mut Report, r: &mut Rng) {
    let trials = a.budget(200, 20_000);
    for _ in 0..trials {
        let lp = r.chance(1, 2);
        let mut driver = Driver::new(r.chance(1, 2), false, 16, true, vec![], None, 8192, lp);
        let rec = driver.recorder();
        let ca = rec.register_counter(&Key::from_parts("twin", vec![Label::new("shard", "a")]), &MD);
        let cb = rec.register_counter(&Key::from_parts("twin", vec![Label::new("shard", "b")]), &MD);
        // per key: increments made since the last flush, and the model of what must be sent
        let mut pending = [0u64; 2];
        let mut idle_sent = [false; 2]; // a registered counter that never changed is reported as zero once, like one that stopped changing
        let mut trace: Vec<String> = Vec::new();
        let mut bad: Option<String> = None;
        for step in 0..(4 + r.usize(8)) {
            for (i, c) in [&ca, &cb].iter().enumerate() {
                if r.chance(1, 2) {
                    let k = 1 + r.below(9);
                    c.increment(k);
                    pending[i] += k;
                    trace.push(format!("step {}: twin{{shard={}}} += {}", step, ["a", "b"][i], k));
                }
            }
            let payloads = match rt::catch(|| driver.flush()) {
                Ok(p) => p,
                Err(m) => {
                    bad = Some(format!("flush panicked: {}", m));
                    break;
                }
            };
            let msgs = match decode(&payloads, lp) {
                Ok(m) => m,
                Err(e) => {
                    bad = Some(format!("undecodable flush output: {}", e));
                    break;
                }
            };
            for i in 0..2 {
                let tag = ["a", "b"][i];
                let got: Vec<u64> = msgs.iter().filter(|m| m.name == "twin" && m.tags.iter().any(|(k, v)| k == "shard" && v.as_deref() == Some(tag))).filter_map(|m| m.values.first().and_then(|x| x.parse().ok())).collect();
                let expect: Vec<u64> = if pending[i] > 0 {
                    idle_sent[i] = false;
                    vec![pending[i]]
                } else if !idle_sent[i] {
                    idle_sent[i] = true;
                    vec![0]
                } else {
                    vec![]
                };
                trace.push(format!("step {}: flush sent {:?} for shard={} (expected {:?})", step, got, tag, expect));
                if got != expect && bad.is_none() {
                    bad = Some(format!("shard={}: flush sent {:?}, expected {:?}", tag, got, expect));
                }
                pending[i] = 0;
            }
            if bad.is_some() {
                break;
            }
        }
        rep.case(mix(fnv(format!("{:?}", trace).as_bytes()), lp as u64), true);
        if let Some(b) = bad {
            rep.violation("C10:idle-zero-rule:same-name-different-labels", jo! {"what" => "two counters sharing a name but not their labels: each must send its own deltas, exactly one zero when it stops changing, then nothing until it changes again", "detail" => b, "history" => J::A(trace.iter().rev().take(16).rev().map(|t| J::s(t.clone())).collect())});
        }
    }
}

fn run_flush(a: &Args) -> Report {
    let mut rep = Report::new("C10", &a.leg, a.seed);
    rt::quiet_panics();
    let mut r = Rng::new(a.shard_seed());
    mixed_mode(a, &mut rep, &mut r);
    same_name_counters(a, &mut rep, &mut r);
    let trials = a.budget(2500, 250_000);
    let mut sigs = HashSet::new();
    let mut wins: HashMap<String, u64> = HashMap::new();
    for t in 0..trials {
        let aggressive = r.chance(1, 2);
        let lp = r.chance(1, 2);
        let as_dist = r.chance(1, 2);
        let prefix = if r.chance(1, 3) { Some("pfx".to_string()) } else { None };
        let glabels = if r.chance(1, 3) { vec![Label::new("g", "1")] } else { vec![] };
        // a small payload limit makes the histogram's values of one flush span several payloads (every one of them must
        // still be the configured message type); counters and gauges of this workload stay below 40 bytes
        let max_payload = if r.chance(1, 3) { 56 } else { 8192 };
        let mut driver = Driver::new(aggressive, false, 16, as_dist, glabels.clone(), prefix.clone(), max_payload, lp);
        let rec = driver.recorder();
        let pn = |n: &str| match &prefix {
            Some(p) => format!("{}.{}", p, n),
            None => n.to_string(),
        };
        let mode = t % 4;
        // a third of the gated trials aim at one window precisely: a single incrementer, counter already idle, the very
        // first increment held between making its value visible and counting the update
        let precise = mode == 0 && r.chance(1, 3);
        let ninc = if precise { 1 } else { 1 + r.usize(3) }; // incrementing threads on "cinc"
        let per = 1 + r.usize(10);
        let nflush = 2 + r.usize(5);
        let idle_first = precise || r.chance(1, 2); // make the counter idle (zero already sent) before the race
        let use_abs = r.chance(1, 2);
        // schedule
        let mut rules = Vec::new();
        let mut sched = "none".to_string();
        if mode == 0 {
            // an updater step is held open until the flusher completed a flush
            let pts: Vec<&str> = COUNTER_POINTS.iter().chain(if use_abs { ABS_POINTS.iter() } else { [].iter() }).cloned().collect();
            let p = if precise { "dsd.counter.inc.after_current_add" } else { *r.pick(&pts) };
            let role: u8 = if p.starts_with("dsd.counter.abs") { (1 + ninc) as u8 } else { 1 };
            let nth = if precise { 1 } else { 1 + r.below(if p.contains("abs.after_mode_swap") || p.contains("abs.after_last_store") { 1 } else { per as u64 }) as u32 };
            rules.push(Rule::new(role, p, nth, 0, "dsd.gauge.flush.after_value_load", 1));
            rules.push(Rule::new(0, "@start", 1, role, p, nth));
            sched = format!("updater held at {} (#{}) across a flush", p, nth);
        } else if mode == 1 {
            // the flusher is held inside AtomicCounter::flush until an updater finished everything
            let p = *r.pick(&FLUSH_POINTS[..3]);
            let nth = 1 + r.below(2) as u32;
            rules.push(Rule::new(0, p, nth, 1, "@done", 1));
            sched = format!("flusher held at {} (#{}) until an updater finished", p, nth);
        }
        let policy = match mode {
            0 | 1 => Policy::GateRandom(rules, 1, 6, 2),
            2 => Policy::Random { num: 1, den: 3, hold: 2 },
            _ => Policy::Off,
        };
        let ctx = Ctx::new(policy, true);
        // handles
        let cinc = rec.register_counter(&Key::from_name("cinc"), &MD);
        let cabs = rec.register_counter(&Key::from_name("cabs"), &MD);
        let gauge = rec.register_gauge(&Key::from_name("gg"), &MD);
        let hist = rec.register_histogram(&Key::from_name("hh"), &MD);
        // with the small payload limit, a counter whose message can never fit: it is rejected for size at every flush and
        // must leave the messages written after it in the same flush intact (also with length prefixes)
        let cbig = if max_payload < 100 { Some(rec.register_counter(&Key::from_parts("cbig", vec![Label::new("pad", "x".repeat(70))]), &MD)) } else { None };
        if let Some(c) = &cbig {
            c.increment(1);
        }
        // optional idle prelude (main thread, sequential): one increment, flush (delta), flush (zero -> idle)
        let mut flushes: Vec<Flush> = Vec::new();
        let mut incs: Vec<(u64, u64, u64)> = Vec::new(); // (call, ret, amount)
        let mut do_flush = |driver: &mut Driver, ctx: &Arc<Ctx>, flushes: &mut Vec<Flush>| -> Result<(), String> {
            let call = ctx.stamp();
            let payloads = rt::catch(|| driver.flush()).map_err(|m| format!("flush panicked: {}", m))?;
            let ret = ctx.stamp();
            let msgs = decode(&payloads, lp)?;
            flushes.push(Flush { call, ret, msgs });
            Ok(())
        };
        let mut fatal: Option<String> = None;
        // a quarter of the preludes push the running total to the edge of u64 so that later increments wrap
        let wrap_prelude = idle_first && r.chance(1, 4);
        if idle_first {
            let first_inc = if wrap_prelude { u64::MAX - r.below(20) } else { 3 };
            let c = ctx.stamp();
            cinc.increment(first_inc);
            let rr = ctx.stamp();
            incs.push((c, rr, first_inc));
            for _ in 0..2 {
                if let Err(e) = do_flush(&mut driver, &ctx, &mut flushes) {
                    fatal = Some(e);
                }
            }
        }
        // concurrent phase
        let mut hs = Vec::new();
        for i in 0..ninc {
            let c = cinc.clone();
            let cx = ctx.clone();
            let seed = r.next_u64();
            hs.push(rt::spawn_role(&ctx, (1 + i) as u8, seed, move || {
                let mut r = Rng::new(seed);
                let mut out = Vec::new();
                for _ in 0..per {
                    let v = 1 + r.below(5);
                    let call = cx.stamp();
                    c.increment(v);
                    let ret = cx.stamp();
                    out.push((call, ret, v));
                }
                out
            }));
        }
        // one thread drives the absolute-only counter (increasing values), the gauge and the histogram
        let cx = ctx.clone();
        let (ca, g, h) = (cabs.clone(), gauge.clone(), hist.clone());
        let abs_first = 1000 + r.below(1000);
        let aux = rt::spawn_role(&ctx, (1 + ninc) as u8, r.next_u64(), move || {
            let mut abs_log = Vec::new();
            let mut g_log = Vec::new();
            let mut h_log = Vec::new();
            for i in 0..per {
                if use_abs {
                    let v = abs_first + (i as u64) * 10;
                    let call = cx.stamp();
                    ca.absolute(v);
                    let ret = cx.stamp();
                    abs_log.push((call, ret, v));
                }
                let gv = (i + 1) as f64;
                let call = cx.stamp();
                g.set(gv);
                let ret = cx.stamp();
                g_log.push((call, ret, gv));
                let hv = 100.0 + i as f64;
                let call = cx.stamp();
                h.record(hv);
                let ret = cx.stamp();
                h_log.push((call, ret, hv));
            }
            (abs_log, g_log, h_log)
        });
        // the flusher is this thread, bound as role 0
        rt::enter(&ctx, 0, r.next_u64());
        rt::mark("@start", 0);
        for _ in 0..nflush {
            if fatal.is_some() {
                break;
            }
            if let Err(e) = do_flush(&mut driver, &ctx, &mut flushes) {
                fatal = Some(e);
            }
            if let Some(c) = &cbig {
                c.increment(1);
            }
            std::thread::yield_now();
        }
        rt::mark("@done", 0);
        rt::leave();
        for h in hs {
            incs.extend(h.join().unwrap());
        }
        let (abs_log, g_log, h_log) = aux.join().unwrap();
        ctx.abort.store(true, Ordering::SeqCst);
        let conc_end = flushes.len();
        // quiescent tail
        for _ in 0..3 {
            if fatal.is_some() {
                break;
            }
            if let Err(e) = do_flush(&mut driver, &ctx, &mut flushes) {
                fatal = Some(e);
            }
        }
        let desc = jo! {"mode" => if aggressive {"aggressive"} else {"conservative"}, "length_prefix" => lp, "prefix" => format!("{:?}", prefix), "incrementers" => ninc, "ops_each" => per, "flushes" => nflush, "idle_prelude" => idle_first, "total_wraps_u64" => wrap_prelude, "absolute_counter" => use_abs, "schedule" => sched.clone(), "max_payload_len" => max_payload};
        if let Some(e) = fatal {
            rep.case(mix(t, 1), true);
            rep.violation("C10:flush-output-invalid", jo! {"what" => "a flush panicked or produced an undecodable payload", "error" => e, "trial" => desc});
            continue;
        }
        if ctx.expired.load(Ordering::SeqCst) > 0 {
            rep.inconclusive("gate expired");
            continue;
        }
        let evs = ctx.take_events();
        let sig = Ctx::signature(&evs, &|p| rt::POINTS[p as usize].starts_with("dsd."));
        sigs.insert(sig);
        if mode <= 1 && ctx.unsat.load(Ordering::SeqCst) == 0 {
            *wins.entry(format!("window:{}", sched.split(" (#").next().unwrap_or("")).to_string()).or_insert(0) += 1;
        }
        let mut hc = sig;
        // ---------------- increments-only counter
        let name_c = pn("cinc");
        let total: u64 = incs.iter().fold(0u64, |a, x| a.wrapping_add(x.2));
        let mut s_sum: u128 = 0;
        let mut zeros_after_last_nonzero = 0u32;
        let mut last_flush_had_msg = false;
        for (fi, f) in flushes.iter().enumerate() {
            let mine: Vec<&Msg> = f.msgs.iter().filter(|m| m.name == name_c).collect();
            last_flush_had_msg = !mine.is_empty();
            if mine.len() > 1 {
                rep.violation("C10:duplicate-message-in-flush", jo! {"what" => "one flush carries two messages for one counter", "trial" => desc.clone()});
            }
            for m in &mine {
                let d: u64 = m.values[0].parse().unwrap_or(u64::MAX);
                hc = mix(hc, d ^ (fi as u64) << 32);
                if m.ty != "c" {
                    rep.violation("C10:wrong-type", jo! {"what" => "counter sent with a non-counter type", "trial" => desc.clone()});
                }
                if m.ts.is_some() != aggressive {
                    rep.violation(format!("C10:timestamp-mode:{}", if aggressive { "aggressive-without-timestamp" } else { "conservative-with-timestamp" }), jo! {"what" => "counter/gauge messages carry a timestamp exactly when the aggregation mode is documented NOT to (Conservative: none, Aggressive: |T)", "message_has_timestamp" => m.ts.is_some(), "trial" => desc.clone()});
                }
                s_sum = if wrap_prelude { (s_sum as u64).wrapping_add(d) as u128 } else { s_sum + d as u128 };
                if d == 0 {
                    zeros_after_last_nonzero += 1;
                } else {
                    zeros_after_last_nonzero = 0;
                }
            }
            let a_i: u64 = incs.iter().filter(|x| x.1 < f.call).fold(0u64, |a, x| a.wrapping_add(x.2));
            let b_i: u64 = incs.iter().filter(|x| x.0 < f.ret).fold(0u64, |a, x| a.wrapping_add(x.2));
            if !wrap_prelude && s_sum > b_i as u128 {
                rep.violation("C10:delta-exceeds-what-was-added", jo! {"what" => "deltas sent up to a flush exceed the increments invoked before it returned", "sent" => s_sum as u64, "invoked_before_return" => b_i, "flush_index" => fi, "trial" => desc.clone()});
                break;
            }
            // an increment completed before the flush was called must be covered by this or an earlier flush — unless
            // the flush legitimately skipped the (idle) counter; that case is caught by the quiescent total below
            let _ = a_i;
        }
        if s_sum != total as u128 {
            // history class for the signature: was some increment in flight across a flush while the counter was idle?
            let overlapped = incs.iter().any(|x| flushes.iter().any(|f| x.0 < f.ret && x.1 > f.call));
            rep.violation(
                if s_sum < total as u128 { if overlapped { "C10:increment-lost:increment-overlaps-flush" } else { "C10:increment-lost" } } else { "C10:delta-exceeds-what-was-added" },
                jo! {"what" => "at quiescence the deltas sent for a counter do not add up to the increments made", "sent" => s_sum as u64, "incremented" => total, "an_increment_overlapped_a_flush" => overlapped,
                "deltas" => J::A(flushes.iter().map(|f| J::s(f.msgs.iter().filter(|m| m.name == name_c).map(|m| m.values[0].clone()).collect::<Vec<_>>().join(","))).collect()), "trial" => desc.clone()},
            );
        } else {
            // zero-once rule on the quiescent tail
            if zeros_after_last_nonzero != 1 || last_flush_had_msg {
                rep.violation("C10:idle-zero-rule", jo! {"what" => "a counter that stopped changing was not sent as zero exactly once and then left out", "zeros_after_last_change" => zeros_after_last_nonzero as u64, "still_sent_in_last_flush" => last_flush_had_msg,
                "deltas" => J::A(flushes.iter().map(|f| J::s(f.msgs.iter().filter(|m| m.name == name_c).map(|m| m.values[0].clone()).collect::<Vec<_>>().join(","))).collect()), "trial" => desc.clone()});
            }
        }
        // ---------------- absolute-only counter
        if use_abs && !abs_log.is_empty() {
            let name_a = pn("cabs");
            let first = abs_log[0].2;
            let last = abs_log.last().unwrap().2;
            let mut sum: u128 = 0;
            let mut wrapped = false;
            for f in &flushes {
                for m in f.msgs.iter().filter(|m| m.name == name_a) {
                    let d: u64 = m.values[0].parse().unwrap_or(u64::MAX);
                    if d > last {
                        wrapped = true;
                    }
                    sum += d as u128;
                }
            }
            if wrapped || sum != (last - first) as u128 {
                let (fc, fr, _) = abs_log[0];
                let first_abs_overlaps_flush = flushes.iter().any(|f| fc < f.ret && fr > f.call);
                let any_abs_overlaps = abs_log.iter().any(|x| flushes.iter().any(|f| x.0 < f.ret && x.1 > f.call));
                let sig = if first_abs_overlaps_flush { "C10:first-absolute-races-flush" } else if any_abs_overlaps && sum < (last - first) as u128 { "C10:increment-lost:increment-overlaps-flush" } else { "C10:absolute-counter-deltas-wrong" };
                rep.violation(sig, jo! {"what" => "deltas of an absolute-only counter do not add up to last - first (or a single delta is larger than the whole value: wrap-around)", "sum_of_deltas" => format!("{}", sum), "last_minus_first" => last - first, "wrapped_delta_seen" => wrapped, "first_absolute_overlapped_a_flush" => first_abs_overlaps_flush,
                "deltas" => J::A(flushes.iter().map(|f| J::s(f.msgs.iter().filter(|m| m.name == name_a).map(|m| m.values[0].clone()).collect::<Vec<_>>().join(","))).collect()), "trial" => desc.clone()});
            }
        }
        // ---------------- gauge: every flush after the first set carries a recent value
        let name_g = pn("gg");
        for f in &flushes {
            let lo = g_log.iter().filter(|x| x.1 < f.call).map(|x| x.2).fold(0.0f64, f64::max);
            let hi = g_log.iter().filter(|x| x.0 < f.ret).map(|x| x.2).fold(0.0f64, f64::max);
            let mine: Vec<&Msg> = f.msgs.iter().filter(|m| m.name == name_g).collect();
            if mine.len() != 1 {
                rep.violation("C10:gauge-not-sent", jo! {"what" => "a flush did not carry exactly one message for a registered gauge", "count" => mine.len(), "trial" => desc.clone()});
                continue;
            }
            let v: f64 = mine[0].values[0].parse().unwrap_or(f64::NAN);
            if !(v >= lo && v <= hi) || mine[0].ty != "g" {
                rep.violation("C10:gauge-stale-or-future", jo! {"what" => "a flush carried a gauge value older than the last set completed before it or newer than any set invoked before it returned", "value" => v, "bounds" => J::A(vec![J::F(lo), J::F(hi)]), "trial" => desc.clone()});
            }
            if mine[0].ts.is_some() != aggressive {
                rep.violation(format!("C10:timestamp-mode:{}", if aggressive { "aggressive-without-timestamp" } else { "conservative-with-timestamp" }), jo! {"what" => "gauge message timestamp presence does not match the documented aggregation mode", "trial" => desc.clone()});
            }
        }
        // ---------------- histogram values: exactly one flush each
        let name_h = pn("hh");
        let mut seen: HashMap<u64, usize> = HashMap::new();
        for (fi, f) in flushes.iter().enumerate() {
            for m in f.msgs.iter().filter(|m| m.name == name_h) {
                if m.ty != if as_dist { "d" } else { "h" } || m.ts.is_some() {
                    rep.violation("C10:wrong-type", jo! {"what" => "histogram sent with the wrong type or with a timestamp", "type" => m.ty.clone(), "trial" => desc.clone()});
                }
                for v in &m.values {
                    let x: f64 = v.parse().unwrap_or(f64::NAN);
                    if let Some(prev) = seen.insert(x.to_bits(), fi) {
                        rep.violation("C10:histogram-value-sent-twice", jo! {"what" => "a histogram value was sent in two flushes", "value" => x, "flushes" => J::A(vec![J::U(prev as u64), J::U(fi as u64)]), "trial" => desc.clone()});
                    }
                }
            }
        }
        for (_c, _r2, v) in &h_log {
            if !seen.contains_key(&v.to_bits()) {
                rep.violation("C10:histogram-value-lost", jo! {"what" => "a recorded histogram value (sampling off) was sent in no flush", "value" => *v, "trial" => desc.clone()});
                break;
            }
        }
        for (c, r2, v) in &h_log {
            if let Some(fi) = seen.get(&v.to_bits()) {
                if flushes[*fi].ret < *c {
                    rep.violation("C10:histogram-value-sent-before-recorded", jo! {"what" => "a value appears in a flush that returned before it was recorded", "value" => *v, "trial" => desc.clone()});
                }
                // recorded before flush k was called => sent by flush <= k
                if let Some(k) = flushes.iter().position(|f| f.call > *r2) {
                    if *fi > k {
                        rep.violation("C10:histogram-value-sent-late", jo! {"what" => "a value recorded before a flush began was left for a later flush", "value" => *v, "flush_it_should_be_in" => k, "flush_it_was_in" => *fi, "trial" => desc.clone()});
                    }
                }
            }
        }
        let _ = conc_end;
        rep.case(hc, ninc + 1 >= 2);
        if rep.want_sample() && t % 4 == 0 {
            rep.sample(jo! {"trial" => desc, "flush_deltas_cinc" => J::A(flushes.iter().map(|f| J::s(f.msgs.iter().filter(|m| m.name == name_c).map(|m| m.values[0].clone()).collect::<Vec<_>>().join(","))).collect()), "increments" => incs.len(), "total" => total, "hook_events" => evs.len()});
        }
    }
    rep.count("interleaving_signatures", sigs.len() as u64);
    for (k, v) in wins {
        rep.count(&k, v);
    }
    rep
}

/// End to end: a built exporter against harness sockets (unix stream = length-prefixed, unixgram, UDP).
fn run_socket(a: &Args) -> Report {
    let mut rep = Report::new("C10", &a.leg, a.seed);
    let mut r = Rng::new(a.shard_seed());
    if a.shard % 4 == 3 {
        return run_stream_stall(a, rep, r);
    }
    let transport = a.shard % 3;
    let aggressive = r.chance(1, 2);
    let dir = std::env::temp_dir().join(format!("vh-c10-{}-{}", std::process::id(), a.shard));
    let _ = std::fs::create_dir_all(&dir);
    let stop = Arc::new(AtomicBool::new(false));
    let received: Arc<std::sync::Mutex<Vec<Vec<u8>>>> = Arc::new(std::sync::Mutex::new(Vec::new()));
    let framing_err: Arc<std::sync::Mutex<Option<String>>> = Arc::new(std::sync::Mutex::new(None));
    let addr: String;
    let mut threads = Vec::new();
    match transport {
        0 => {
            let path = dir.join("s.sock");
            let _ = std::fs::remove_file(&path);
            let l = std::os::unix::net::UnixListener::bind(&path).unwrap();
            l.set_nonblocking(true).unwrap();
            addr = format!("unix://{}", path.display());
            let (stop, received, ferr) = (stop.clone(), received.clone(), framing_err.clone());
            threads.push(std::thread::spawn(move || {
                let mut conns: Vec<(std::os::unix::net::UnixStream, Vec<u8>)> = Vec::new();
                while !stop.load(Ordering::SeqCst) {
                    if let Ok((s, _)) = l.accept() {
                        s.set_nonblocking(true).unwrap();
                        conns.push((s, Vec::new()));
                    }
                    for (s, buf) in conns.iter_mut() {
                        let mut tmp = [0u8; 65536];
                        if let Ok(n) = s.read(&mut tmp) {
                            buf.extend_from_slice(&tmp[..n]);
                        }
                        // de-frame
                        loop {
                            if buf.len() < 4 {
                                break;
                            }
                            let l = u32::from_le_bytes([buf[0], buf[1], buf[2], buf[3]]) as usize;
                            if l > 100_000 {
                                *ferr.lock().unwrap() = Some(format!("implausible frame length {} (stream head {:?})", l, String::from_utf8_lossy(&buf[..buf.len().min(40)])));
                                return;
                            }
                            if buf.len() < 4 + l {
                                break;
                            }
                            received.lock().unwrap().push(buf[4..4 + l].to_vec());
                            buf.drain(..4 + l);
                        }
                    }
                    std::thread::sleep(Duration::from_millis(2));
                }
            }));
        }
        1 => {
            let path = dir.join("d.sock");
            let _ = std::fs::remove_file(&path);
            let s = std::os::unix::net::UnixDatagram::bind(&path).unwrap();
            s.set_read_timeout(Some(Duration::from_millis(20))).unwrap();
            addr = format!("unixgram://{}", path.display());
            let (stop, received) = (stop.clone(), received.clone());
            threads.push(std::thread::spawn(move || {
                let mut tmp = [0u8; 65536];
                while !stop.load(Ordering::SeqCst) {
                    if let Ok(n) = s.recv(&mut tmp) {
                        received.lock().unwrap().push(tmp[..n].to_vec());
                    }
                }
            }));
        }
        _ => {
            let s = std::net::UdpSocket::bind("127.0.0.1:0").unwrap();
            s.set_read_timeout(Some(Duration::from_millis(20))).unwrap();
            addr = format!("udp://{}", s.local_addr().unwrap());
            let (stop, received) = (stop.clone(), received.clone());
            threads.push(std::thread::spawn(move || {
                let mut tmp = [0u8; 65536];
                while !stop.load(Ordering::SeqCst) {
                    if let Ok(n) = s.recv(&mut tmp) {
                        received.lock().unwrap().push(tmp[..n].to_vec());
                    }
                }
            }));
        }
    }
    let builder = DogStatsDBuilder::default()
        .with_remote_address(addr.clone())
        .unwrap()
        .with_flush_interval(Duration::from_millis(20))
        .with_aggregation_mode(if aggressive { AggregationMode::Aggressive } else { AggregationMode::Conservative })
        .with_telemetry(false)
        .send_histograms_as_distributions(true)
        .set_global_prefix("e2e");
    let rec = match builder.build() {
        Ok(r) => r,
        Err(e) => {
            rep.inconclusive(format!("exporter build failed: {:?}", e));
            stop.store(true, Ordering::SeqCst);
            return rep;
        }
    };
    let c = rec.register_counter(&Key::from_name("cnt"), &MD);
    let g = rec.register_gauge(&Key::from_name("gau"), &MD);
    let h = rec.register_histogram(&Key::from_name("his"), &MD);
    let mut total = 0u64;
    let mut hist_sent = 0usize;
    // >= 6 flush cycles of activity
    for cycle in 0..8 {
        for i in 0..20 {
            let v = 1 + r.below(4);
            c.increment(v);
            total += v;
            g.set((cycle * 100 + i) as f64);
            h.record((cycle * 1000 + i) as f64 + 0.5);
            hist_sent += 1;
        }
        std::thread::sleep(Duration::from_millis(25));
    }
    // wait (bounded) until the received deltas add up; logical completion, generous watchdog
    let t0 = Instant::now();
    let mut sum = 0u64;
    let mut msgs: Vec<Msg> = Vec::new();
    let mut bad: Option<String> = None;
    while t0.elapsed() < Duration::from_secs(15) {
        std::thread::sleep(Duration::from_millis(40));
        msgs.clear();
        sum = 0;
        bad = None;
        for p in received.lock().unwrap().iter() {
            // a datagram / frame may carry exactly one message in this exporter
            match dsdparse::parse(p) {
                Ok(m) => {
                    if m.name == "e2e.cnt" {
                        sum += m.values[0].parse::<u64>().unwrap_or(0);
                    }
                    msgs.push(m);
                }
                Err(e) => bad = Some(format!("{} — {:?}", e, String::from_utf8_lossy(&p[..p.len().min(60)]))),
            }
        }
        let hist_got: usize = msgs.iter().filter(|m| m.name == "e2e.his").map(|m| m.values.len()).sum();
        if framing_err.lock().unwrap().is_some() || bad.is_some() || (sum >= total && hist_got >= hist_sent) {
            break;
        }
    }
    stop.store(true, Ordering::SeqCst);
    for t in threads {
        let _ = t.join();
    }
    let _ = std::fs::remove_dir_all(&dir);
    let tname = ["unix-stream(length-prefixed)", "unixgram", "udp"][transport as usize];
    rep.case(mix(transport, aggressive as u64), true);
    rep.case(mix(transport + 10, msgs.len() as u64), true);
    let desc = jo! {"transport" => tname, "mode" => if aggressive {"aggressive"} else {"conservative"}, "frames_received" => msgs.len()};
    if let Some(e) = framing_err.lock().unwrap().clone() {
        rep.violation("C10:socket-framing", jo! {"what" => "the byte stream on the unix stream socket is not a sequence of length-prefixed messages", "error" => e, "run" => desc.clone()});
        return rep;
    }
    if let Some(e) = bad {
        rep.violation("C10:socket-framing", jo! {"what" => "a received frame/datagram is not exactly one DogStatsD message", "error" => e, "run" => desc.clone()});
        return rep;
    }
    if msgs.is_empty() {
        rep.inconclusive("nothing received within the watchdog");
        return rep;
    }
    let hist_vals: Vec<u64> = msgs.iter().filter(|m| m.name == "e2e.his").flat_map(|m| m.values.iter().map(|v| v.parse::<f64>().unwrap_or(f64::NAN).to_bits())).collect();
    let distinct: HashSet<u64> = hist_vals.iter().cloned().collect();
    if transport != 2 {
        // unix sockets are reliable; UDP loopback may drop under pressure, so conservation is judged there only as an upper bound
        if sum != total {
            rep.violation("C10:increment-lost", jo! {"what" => "deltas received on the socket do not add up to the increments made", "received" => sum, "incremented" => total, "run" => desc.clone()});
        }
        if distinct.len() != hist_sent || hist_vals.len() != hist_sent {
            rep.violation(if hist_vals.len() > distinct.len() { "C10:histogram-value-sent-twice" } else { "C10:histogram-value-lost" }, jo! {"what" => "histogram values received != values recorded (each exactly once)", "received" => hist_vals.len(), "distinct" => distinct.len(), "recorded" => hist_sent, "run" => desc.clone()});
        }
    } else if sum > total || hist_vals.len() > distinct.len() {
        rep.violation("C10:delta-exceeds-what-was-added", jo! {"what" => "more was received than was recorded", "received" => sum, "incremented" => total, "run" => desc.clone()});
    }
    for m in msgs.iter().filter(|m| m.ty == "c" || m.ty == "g") {
        if m.ts.is_some() != aggressive {
            rep.violation(format!("C10:timestamp-mode:{}", if aggressive { "aggressive-without-timestamp" } else { "conservative-with-timestamp" }), jo! {"what" => "on the wire, counter/gauge messages carry a timestamp exactly when the mode is documented not to", "run" => desc.clone()});
            break;
        }
    }
    rep.sample(jo! {"run" => desc, "counter_total" => total, "received_sum" => sum, "histogram_values" => hist_vals.len()});
    rep
}

/// Miri / TSan on the storage types: no monitor synchronisation, conservation at quiescence only.
fn run_small(a: &Args) -> Report {
    let mut rep = Report::new("C10", &a.leg, a.seed);
    let mut r = Rng::new(a.shard_seed());
    let miri = cfg!(miri);
    let trials = if miri { 2 } else { a.budget(500, 20_000) };
    for _ in 0..trials {
        let mut driver = Driver::new(true, false, 8, true, vec![], None, 8192, false);
        let rec = driver.recorder();
        let c = rec.register_counter(&Key::from_name("c"), &MD);
        let h = rec.register_histogram(&Key::from_name("h"), &MD);
        let n = if miri { 2 } else { 4 };
        let per = if miri { 6 } else { 200 };
        let mut hs = Vec::new();
        for t in 0..n {
            let (c, h) = (c.clone(), h.clone());
            hs.push(std::thread::spawn(move || {
                for i in 0..per {
                    c.increment(1);
                    h.record((t * 1000 + i) as f64);
                }
            }));
        }
        let mut sum = 0u64;
        let mut hv = 0usize;
        let mut collect = |p: Vec<Vec<u8>>| {
            for m in p.iter().filter_map(|x| dsdparse::parse(x).ok()) {
                if m.name == "c" {
                    sum += m.values[0].parse::<u64>().unwrap_or(0);
                }
                if m.name == "h" {
                    hv += m.values.len();
                }
            }
        };
        for _ in 0..3 {
            collect(driver.flush());
            std::thread::yield_now();
        }
        for h in hs {
            h.join().unwrap();
        }
        collect(driver.flush());
        collect(driver.flush());
        rep.case(mix(r.next_u64(), sum), true);
        if sum > (n * per) as u64 || hv > n * per {
            rep.violation("C10:delta-exceeds-what-was-added", jo! {"what" => "more sent than recorded", "sum" => sum, "hist" => hv});
        }
        if hv != n * per {
            rep.violation("C10:histogram-value-lost", jo! {"what" => "histogram values sent != recorded at quiescence", "sent" => hv, "recorded" => n * per});
        }
        if rep.want_sample() {
            rep.sample(jo! {"threads" => n, "ops_each" => per, "counter_sum_sent" => sum, "histogram_values_sent" => hv});
        }
    }
    rep
}

/// Unix stream transport with an agent that stalls longer than the write timeout in the middle of a very large payload
/// and then resumes: every connection the agent accepted must carry a correctly framed stream (whole length-prefixed
/// messages, at most a truncated last frame where the exporter gave the connection up).
fn run_stream_stall(a: &Args, mut rep: Report, mut r: Rng) -> Report {
    let dir = std::env::temp_dir().join(format!("vh-c10s-{}-{}", std::process::id(), a.shard));
    let _ = std::fs::create_dir_all(&dir);
    let path = dir.join("s.sock");
    let _ = std::fs::remove_file(&path);
    let l = std::os::unix::net::UnixListener::bind(&path).unwrap();
    l.set_nonblocking(true).unwrap();
    let stop = Arc::new(AtomicBool::new(false));
    let conns_out: Arc<std::sync::Mutex<Vec<Vec<u8>>>> = Arc::new(std::sync::Mutex::new(Vec::new()));
    let (stop2, out2) = (stop.clone(), conns_out.clone());
    let stall_ms = 300 + r.below(500);
    let agent = std::thread::spawn(move || {
        let mut conns: Vec<(std::os::unix::net::UnixStream, Vec<u8>, bool)> = Vec::new();
        let mut stalled_once = false;
        loop {
            if let Ok((s, _)) = l.accept() {
                s.set_nonblocking(true).unwrap();
                conns.push((s, Vec::new(), false));
            }
            for (s, buf, eof) in conns.iter_mut() {
                if *eof {
                    continue;
                }
                let mut tmp = [0u8; 65536];
                match s.read(&mut tmp) {
                    Ok(0) => *eof = true,
                    Ok(n) => {
                        buf.extend_from_slice(&tmp[..n]);
                        // stall once, in the middle of a large frame
                        if !stalled_once && buf.len() > 100_000 {
                            stalled_once = true;
                            std::thread::sleep(Duration::from_millis(stall_ms));
                        }
                    }
                    Err(_) => {}
                }
            }
            if stop2.load(Ordering::SeqCst) {
                // final drain
                for (s, buf, eof) in conns.iter_mut() {
                    let mut tmp = [0u8; 65536];
                    while !*eof {
                        match s.read(&mut tmp) {
                            Ok(0) => *eof = true,
                            Ok(n) => buf.extend_from_slice(&tmp[..n]),
                            Err(_) => break,
                        }
                    }
                }
                *out2.lock().unwrap() = conns.into_iter().map(|c| c.1).collect();
                return;
            }
            std::thread::sleep(Duration::from_millis(1));
        }
    });
    let builder = DogStatsDBuilder::default()
        .with_remote_address(format!("unix://{}", path.display()))
        .unwrap()
        .with_maximum_payload_length(1 << 20)
        .unwrap()
        .with_write_timeout(Duration::from_millis(80))
        .with_flush_interval(Duration::from_millis(30))
        .with_telemetry(false)
        .with_histogram_sampling(true)
        .with_histogram_reservoir_size(200_000)
        .send_histograms_as_distributions(true);
    let rec = match builder.build() {
        Ok(r) => r,
        Err(e) => {
            stop.store(true, Ordering::SeqCst);
            let _ = agent.join();
            rep.inconclusive(format!("exporter build failed: {:?}", e));
            return rep;
        }
    };
    let h = rec.register_histogram(&Key::from_name("big"), &MD);
    let c = rec.register_counter(&Key::from_name("trickle"), &MD);
    for i in 0..200_000 {
        h.record(i as f64 + 0.125);
    }
    for _ in 0..60 {
        c.increment(1);
        h.record(1.0);
        std::thread::sleep(Duration::from_millis(25));
    }
    stop.store(true, Ordering::SeqCst);
    let _ = agent.join();
    let _ = std::fs::remove_dir_all(&dir);
    let conns = conns_out.lock().unwrap().clone();
    rep.case(mix(77, conns.len() as u64), true);
    rep.case(mix(78, conns.iter().map(|c| c.len() as u64).sum()), true);
    let mut frames = 0usize;
    let mut truncated_tails = 0usize;
    for (ci, b) in conns.iter().enumerate() {
        let mut i = 0usize;
        while i < b.len() {
            if i + 4 > b.len() {
                truncated_tails += 1;
                break;
            }
            let l = u32::from_le_bytes([b[i], b[i + 1], b[i + 2], b[i + 3]]) as usize;
            if l == 0 || l > (1 << 20) {
                rep.violation("C10:socket-framing:stream-after-write-timeout", jo! {"what" => "on a unix stream connection the bytes following a frame are not a valid length prefix (a later payload was written into the middle of an abandoned frame)", "connection" => ci, "offset" => i, "bogus_length" => l, "connections" => conns.len(), "agent_stall_ms" => stall_ms});
                return rep;
            }
            if i + 4 + l > b.len() {
                // the exporter gave this connection up mid-frame: acceptable only as the last thing on the connection,
                // and what was received of it must be the prefix of ONE message (no newline, no binary length bytes inside)
                let part = &b[i + 4..];
                if part.iter().any(|x| *x == b'\n' || *x == 0) {
                    rep.violation("C10:socket-framing:stream-after-write-timeout", jo! {"what" => "after a frame that was cut short by a write timeout, further payload bytes (a newline / a binary length prefix) follow on the same unix stream connection: later payloads were written into the middle of the abandoned frame", "connection" => ci, "frame_offset" => i, "announced_len" => l, "received_of_it" => part.len(), "connections" => conns.len(), "agent_stall_ms" => stall_ms});
                    return rep;
                }
                truncated_tails += 1;
                break;
            }
            if let Err(e) = dsdparse::parse(&b[i + 4..i + 4 + l]) {
                rep.violation("C10:socket-framing:stream-after-write-timeout", jo! {"what" => "a length-prefixed frame on a unix stream connection is not one DogStatsD message", "error" => e, "connection" => ci, "offset" => i, "agent_stall_ms" => stall_ms});
                return rep;
            }
            frames += 1;
            i += 4 + l;
        }
    }
    if frames == 0 {
        rep.inconclusive("no complete frame received in the stream-stall scenario");
    }
    rep.count("stream_stall:connections", conns.len() as u64);
    rep.count("stream_stall:whole_frames", frames as u64);
    rep.count("stream_stall:connections_abandoned_mid_frame", truncated_tails as u64);
    rep.sample(jo! {"scenario" => "unix stream, agent stalls mid-payload longer than the write timeout", "agent_stall_ms" => stall_ms, "connections" => conns.len(), "whole_frames" => frames, "abandoned_mid_frame" => truncated_tails});
    rep
}
