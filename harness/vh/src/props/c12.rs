//! C12 — idle metrics are dropped exactly when they were idle longer than the timeout.
use crate::promparse::{self, Line};
use crate::rt::{self, fnv, mix, Args, Report, Rng, J};
use metrics::{Key, Label, Level, Metadata, Recorder};
use metrics_exporter_prometheus::PrometheusBuilder;
use metrics_util::registry::{GenerationalAtomicStorage, Recency, Registry};
use metrics_util::MetricKindMask;
use std::collections::BTreeMap;
use std::sync::atomic::Ordering;
use std::time::Duration;

/// u64::MAX nanoseconds stands for a "never expire" timeout written as Duration::MAX (it does not fit u64 nanoseconds).
fn to_timeout(ns: u64) -> Duration {
    if ns == u64::MAX {
        Duration::MAX
    } else {
        Duration::from_nanos(ns)
    }
}

pub fn run(a: &Args) -> Option<Report> {
    match a.leg.as_str() {
        "registry" => Some(run_registry(a)),
        "exporter" => Some(run_exporter(a)),
        _ => None,
    }
}

fn mask_of(bits: u8) -> MetricKindMask {
    let mut m = MetricKindMask::NONE;
    if bits & 1 != 0 {
        m = m | MetricKindMask::COUNTER;
    }
    if bits & 2 != 0 {
        m = m | MetricKindMask::GAUGE;
    }
    if bits & 4 != 0 {
        m = m | MetricKindMask::HISTOGRAM;
    }
    m
}

/// Reference state machine per (kind, key): (generation at last observed change, time of that observation).
#[derive(Default)]
struct Model {
    // (kind, key index) -> (live?, value, updates since registration, Some((gen_seen, t_seen)))
    st: BTreeMap<(u8, usize), (u64, u64, Option<(u64, u64)>)>,
}

static MD: Metadata<'static> = Metadata::new("c12", Level::INFO, None);

// ------------------------------------------------------------------------------------------
// An observation landing in the middle of an update (the storage operation itself is paused by the storage double):
// the metric was updated after the previous observation, so the observation after the next timeout must keep it with
// the new value — whatever order the update's value write and its generation bump are made in.
// ------------------------------------------------------------------------------------------
struct PauseCounter {
    v: std::sync::atomic::AtomicU64,
    gate: std::sync::Mutex<Option<(std::sync::mpsc::Sender<()>, std::sync::mpsc::Receiver<()>)>>,
}
impl metrics::CounterFn for PauseCounter {
    fn increment(&self, x: u64) {
        let g = self.gate.lock().unwrap().take();
        if let Some((entered, release)) = g {
            let _ = entered.send(());
            let _ = release.recv_timeout(Duration::from_secs(5));
        }
        self.v.fetch_add(x, std::sync::atomic::Ordering::SeqCst);
    }
    fn absolute(&self, x: u64) {
        self.v.fetch_max(x, std::sync::atomic::Ordering::SeqCst);
    }
}
struct PauseStorage {
    made: std::sync::Mutex<Vec<std::sync::Arc<PauseCounter>>>,
}
impl metrics_util::registry::Storage<Key> for PauseStorage {
    type Counter = std::sync::Arc<PauseCounter>;
    type Gauge = std::sync::Arc<std::sync::atomic::AtomicU64>;
    type Histogram = std::sync::Arc<metrics_util::storage::AtomicBucket<f64>>;
    fn counter(&self, _: &Key) -> Self::Counter {
        let c = std::sync::Arc::new(PauseCounter { v: Default::default(), gate: std::sync::Mutex::new(None) });
        self.made.lock().unwrap().push(c.clone());
        c
    }
    fn gauge(&self, _: &Key) -> Self::Gauge {
        Default::default()
    }
    fn histogram(&self, _: &Key) -> Self::Histogram {
        std::sync::Arc::new(metrics_util::storage::AtomicBucket::new())
    }
}

fn observation_inside_update(a: &Args, rep: &mut Report, r: &mut Rng) {
    use metrics_util::registry::{GenerationalStorage, Registry};
    let trials = a.budget(40, 2000);
    for _ in 0..trials {
        let (clock, mock) = quanta::Clock::mock();
        mock.increment(Duration::from_secs(1000));
        let timeout = Duration::from_secs(10);
        let recency: Recency<Key> = Recency::new(clock.clone(), MetricKindMask::COUNTER, Some(timeout));
        let reg = std::sync::Arc::new(Registry::new(GenerationalStorage::new(PauseStorage { made: Default::default() })));
        let key = Key::from_name("paused");
        let first = 1 + r.below(5);
        reg.get_or_create_counter(&key, |c| metrics::CounterFn::increment(c, first));
        let observe = |reg: &Registry<Key, GenerationalStorage<PauseStorage>>| -> Option<u64> {
            let mut out = None;
            for (k, hnd) in reg.get_counter_handles() {
                if recency.should_store_counter(&k, hnd.get_generation(), reg) {
                    out = Some(hnd.get_inner().v.load(std::sync::atomic::Ordering::SeqCst));
                }
            }
            out
        };
        let o1 = observe(&reg);
        // arm the pause and start the second update on another thread
        let (entered_tx, entered_rx) = std::sync::mpsc::channel();
        let (release_tx, release_rx) = std::sync::mpsc::channel();
        let inner = reg.get_counter(&key).map(|g| g.get_inner().clone());
        if let Some(pc) = &inner {
            *pc.gate.lock().unwrap() = Some((entered_tx, release_rx));
        }
        let second = 1 + r.below(5);
        let reg2 = reg.clone();
        let key2 = key.clone();
        let upd = std::thread::spawn(move || reg2.get_or_create_counter(&key2, |c| metrics::CounterFn::increment(c, second)));
        let paused = entered_rx.recv_timeout(Duration::from_secs(5)).is_ok();
        // time passes (less than the timeout), an observation lands while the update is in progress
        mock.increment(Duration::from_secs(4));
        let o2 = observe(&reg);
        let _ = release_tx.send(());
        let _ = upd.join();
        // more than the timeout after the observation above, but the update completed in between
        mock.increment(Duration::from_secs(11));
        let o3 = observe(&reg);
        rep.case(metrics_hash(first, second), paused);
        if !paused {
            rep.inconclusive("the update never reached the storage double");
            continue;
        }
        if o1 != Some(first) || o2.is_none() || o3 != Some(first + second) {
            rep.violation("C12:dropped-too-early:update-in-progress-during-observation", jo! {"what" => "a counter whose update was in progress during one observation (and completed right after it) was not kept with its new value by the next observation, although it had been updated since the previous one", "observation_before" => format!("{:?}", o1), "observation_during_update" => format!("{:?}", o2), "observation_after" => format!("{:?}", o3), "expected_after" => first + second, "timeout_secs" => 10});
        }
    }
}

fn metrics_hash(a: u64, b: u64) -> u64 {
    crate::rt::mix(a.wrapping_mul(31), b ^ 0xC12)
}

fn run_registry(a: &Args) -> Report {
    let mut rep = Report::new("C12", &a.leg, a.seed);
    let mut r = Rng::new(a.shard_seed());
    observation_inside_update(a, &mut rep, &mut r);
    let n = a.budget(5000, 500_000);
    for _ in 0..n {
        let (clock, mock) = quanta::Clock::mock();
        mock.increment(Duration::from_secs(1000));
        let bits = r.below(8) as u8;
        let timeout_ns: Option<u64> = if r.chance(1, 8) { None } else { Some(*r.pick(&[0u64, 1, 10, 1000, 1_000_000_000, u64::MAX / 2, u64::MAX])) };
        let recency: Recency<Key> = Recency::new(clock.clone(), mask_of(bits), timeout_ns.map(to_timeout));
        let reg: Registry<Key, GenerationalAtomicStorage> = Registry::new(GenerationalAtomicStorage::atomic());
        let nkeys = 1 + r.usize(3);
        let keys: Vec<Key> = (0..nkeys).map(|i| Key::from_parts(format!("k{}", i), vec![Label::new("l", "v")])).collect();
        let mut model = Model::default();
        let mut now: u64 = 0;
        let steps = 5 + r.usize(60);
        let mut h = mix(bits as u64, timeout_ns.unwrap_or(0));
        let mut trace: Vec<String> = Vec::new();
        let same_key_two_kinds = nkeys == 1 || r.chance(1, 2);
        let mut failed = false;
        for _ in 0..steps {
            if failed {
                break;
            }
            let c = r.below(10);
            h = mix(h, c);
            match c {
                0..=3 => {
                    // update (register if needed); gauges may be "updated" with an unchanged value
                    let kind = if same_key_two_kinds { r.below(3) as u8 } else { r.below(3) as u8 };
                    let ki = r.usize(nkeys);
                    let key = &keys[ki];
                    let e = model.st.entry((kind, ki)).or_insert((0, 0, None));
                    if r.chance(1, 5) {
                        // registered (or looked up) without any update: it is a live series all the same, and idles from
                        // its first observation on
                        match kind {
                            0 => reg.get_or_create_counter(key, |_| ()),
                            1 => reg.get_or_create_gauge(key, |_| ()),
                            _ => reg.get_or_create_histogram(key, |_| ()),
                        }
                        trace.push(format!("t={} register-only kind{} key{}", now, kind, ki));
                        continue;
                    }
                    match kind {
                        0 => {
                            let v = r.below(3);
                            reg.get_or_create_counter(key, |c| metrics::CounterFn::increment(c, v));
                            e.0 = e.0.wrapping_add(v);
                        }
                        1 => {
                            let v = *r.pick(&[0.0f64, 1.0, 1.0, 2.0]);
                            reg.get_or_create_gauge(key, |g| metrics::GaugeFn::set(g, v));
                            e.0 = v.to_bits();
                        }
                        _ => {
                            reg.get_or_create_histogram(key, |hh| metrics::HistogramFn::record(hh, 1.0));
                            e.0 += 1;
                        }
                    }
                    e.1 += 1;
                    trace.push(format!("t={} update kind{} key{}", now, kind, ki));
                }
                4..=6 => {
                    let t = timeout_ns.unwrap_or(1000).min(3_000_000_000);
                    let adv = match r.below(6) {
                        0 => 0,
                        1 => t,
                        2 => t + 1,
                        3 => t.saturating_sub(1),
                        4 => 2 * t + 3,
                        _ => r.below(2 * t + 2),
                    };
                    mock.increment(Duration::from_nanos(adv));
                    now += adv;
                    h = mix(h, adv.min(5000));
                    trace.push(format!("advance {} -> t={}", adv, now));
                }
                _ => {
                    // observation: exactly what an exporter does
                    trace.push(format!("t={} observe", now));
                    let mut expect_drop: Vec<(u8, usize)> = Vec::new();
                    for ((kind, ki), (_v, gen, seen)) in model.st.iter_mut() {
                        let covered = timeout_ns.is_some() && (bits >> *kind) & 1 == 1;
                        if !covered {
                            continue;
                        }
                        match seen {
                            None => *seen = Some((*gen, now)),
                            Some((g0, t0)) => {
                                if *g0 == *gen {
                                    if now - *t0 > timeout_ns.unwrap() {
                                        expect_drop.push((*kind, *ki));
                                    }
                                } else {
                                    *seen = Some((*gen, now));
                                }
                            }
                        }
                    }
                    // real
                    let mut dropped: Vec<(u8, usize)> = Vec::new();
                    for (k, hnd) in reg.get_counter_handles() {
                        if !recency.should_store_counter(&k, hnd.get_generation(), &reg) {
                            dropped.push((0, keys.iter().position(|x| *x == k).unwrap()));
                        }
                    }
                    for (k, hnd) in reg.get_gauge_handles() {
                        if !recency.should_store_gauge(&k, hnd.get_generation(), &reg) {
                            dropped.push((1, keys.iter().position(|x| *x == k).unwrap()));
                        }
                    }
                    for (k, hnd) in reg.get_histogram_handles() {
                        if !recency.should_store_histogram(&k, hnd.get_generation(), &reg) {
                            dropped.push((2, keys.iter().position(|x| *x == k).unwrap()));
                        }
                    }
                    dropped.sort();
                    expect_drop.sort();
                    for d in &expect_drop {
                        model.st.remove(d);
                    }
                    if dropped != expect_drop {
                        let kept_too_long: Vec<&(u8, usize)> = expect_drop.iter().filter(|d| !dropped.contains(d)).collect();
                        let early: Vec<&(u8, usize)> = dropped.iter().filter(|d| !expect_drop.contains(d)).collect();
                        // input class: does the offending key exist under another kind as well?
                        let offender = kept_too_long.first().or(early.first()).cloned().cloned().unwrap();
                        let shared = model.st.keys().any(|(k, i)| *i == offender.1 && *k != offender.0) || expect_drop.iter().chain(dropped.iter()).any(|(k, i)| *i == offender.1 && *k != offender.0);
                        let sig = format!("C12:{}:{}", if !early.is_empty() { "dropped-too-early" } else { "kept-past-idle-deadline" }, if shared { "same-key-under-two-kinds" } else { "single-kind-key" });
                        rep.violation(sig, jo! {"what" => "the set of metrics dropped at an observation differs from the reference idle state machine", "dropped" => format!("{:?}", dropped), "expected" => format!("{:?}", expect_drop),
                        "mask_bits" => bits as u64, "timeout_ns" => format!("{:?}", timeout_ns), "trace_tail" => J::A(trace.iter().rev().take(16).rev().map(|s| J::s(s.clone())).collect())});
                        failed = true;
                        continue;
                    }
                    // registry contents == model, values intact
                    let mut live: Vec<(u8, usize, u64)> = Vec::new();
                    for (k, hnd) in reg.get_counter_handles() {
                        live.push((0, keys.iter().position(|x| *x == k).unwrap(), hnd.get_inner().load(Ordering::SeqCst)));
                    }
                    for (k, hnd) in reg.get_gauge_handles() {
                        live.push((1, keys.iter().position(|x| *x == k).unwrap(), hnd.get_inner().load(Ordering::SeqCst)));
                    }
                    for (k, hnd) in reg.get_histogram_handles() {
                        let mut cnt = 0u64;
                        hnd.get_inner().data_with(|s| cnt += s.len() as u64);
                        live.push((2, keys.iter().position(|x| *x == k).unwrap(), cnt));
                    }
                    live.sort();
                    let exp: Vec<(u8, usize, u64)> = model.st.iter().map(|((k, i), (v, _, _))| (*k, *i, *v)).collect();
                    if live != exp {
                        rep.violation("C12:registry-contents-differ", jo! {"what" => "after an observation the registry does not hold exactly the kept metrics with their full values (a re-registered metric must start from zero)", "registry" => format!("{:?}", live), "model" => format!("{:?}", exp),
                        "trace_tail" => J::A(trace.iter().rev().take(16).rev().map(|s| J::s(s.clone())).collect())});
                        failed = true;
                    }
                }
            }
        }
        rep.case(h, timeout_ns.is_some() && bits != 0);
        if rep.want_sample() && trace.len() > 12 && timeout_ns.is_some() && bits != 0 {
            rep.sample(jo! {"mask_bits" => bits as u64, "timeout_ns" => timeout_ns.unwrap(), "trace" => J::A(trace.iter().take(18).map(|s| J::s(s.clone())).collect())});
        }
    }
    rep
}

/// The same histories through the Prometheus exporter (distinct names per kind, as the exporter requires).
fn run_exporter(a: &Args) -> Report {
    let mut rep = Report::new("C12", &a.leg, a.seed);
    let mut r = Rng::new(a.shard_seed());
    let n = a.budget(1500, 150_000);
    for _ in 0..n {
        let (clock, mock) = quanta::Clock::mock();
        mock.increment(Duration::from_secs(1000));
        let bits = r.below(8) as u8;
        let timeout_ns: Option<u64> = if r.chance(1, 8) { None } else { Some(*r.pick(&[0u64, 10, 1000, 1_000_000_000, u64::MAX / 2, u64::MAX])) };
        // sometimes an earlier idle_timeout call with another mask precedes the one that counts
        let mut b = PrometheusBuilder::new();
        if r.chance(1, 3) {
            b = b.idle_timeout(mask_of(r.below(8) as u8), Some(Duration::from_nanos(*r.pick(&[10u64, 1000]))));
        }
        let mut b = b.idle_timeout(mask_of(bits), timeout_ns.map(to_timeout));
        if r.chance(1, 2) {
            b = b.add_global_label("env", "prod");
        }
        if r.chance(1, 2) {
            b = b.set_buckets(&[1.0, 2.0]).unwrap();
        }
        let rec = b.verif_build_with_clock(clock.clone());
        let handle = rec.handle();
        // metrics: (kind, name)
        let metrics_: Vec<(u8, String)> = vec![(0, "c_a".into()), (0, "c_b".into()), (1, "g_a".into()), (2, "h_a".into()), (2, "h_b".into())];
        // model: name -> (value/count, gen, seen)
        let mut st: BTreeMap<usize, (f64, u64, Option<(u64, u64)>)> = BTreeMap::new();
        let mut now = 0u64;
        let steps = 5 + r.usize(40);
        let mut h = mix(bits as u64, timeout_ns.unwrap_or(0));
        let mut trace = Vec::new();
        let mut failed = false;
        for _ in 0..steps {
            if failed {
                break;
            }
            let c = r.below(10);
            h = mix(h, c);
            match c {
                0..=3 => {
                    let mi = r.usize(metrics_.len());
                    let (kind, name) = &metrics_[mi];
                    let key = Key::from_name(name.clone());
                    let e = st.entry(mi).or_insert((0.0, 0, None));
                    match kind {
                        0 => {
                            let v = r.below(3);
                            rec.register_counter(&key, &MD).increment(v);
                            e.0 += v as f64;
                        }
                        1 => {
                            let v = *r.pick(&[0.0f64, 1.0, 1.0, 2.0]);
                            rec.register_gauge(&key, &MD).set(v);
                            e.0 = v;
                        }
                        _ => {
                            rec.register_histogram(&key, &MD).record(1.5);
                            e.0 += 1.0;
                        }
                    }
                    e.1 += 1;
                    trace.push(format!("t={} update {}", now, name));
                }
                4..=6 => {
                    let t = timeout_ns.unwrap_or(1000).min(3_000_000_000);
                    let adv = *r.pick(&[0, t, t + 1, t.saturating_sub(1), 2 * t + 3]);
                    mock.increment(Duration::from_nanos(adv));
                    now += adv;
                    h = mix(h, adv.min(5000));
                    trace.push(format!("advance {} -> t={}", adv, now));
                }
                _ => {
                    trace.push(format!("t={} render", now));
                    let mut expect_drop = Vec::new();
                    for (mi, (_v, gen, seen)) in st.iter_mut() {
                        let kind = metrics_[*mi].0;
                        let covered = timeout_ns.is_some() && (bits >> kind) & 1 == 1;
                        if !covered {
                            continue;
                        }
                        match seen {
                            None => *seen = Some((*gen, now)),
                            Some((g0, t0)) => {
                                if *g0 == *gen {
                                    if now - *t0 > timeout_ns.unwrap() {
                                        expect_drop.push(*mi);
                                    }
                                } else {
                                    *seen = Some((*gen, now));
                                }
                            }
                        }
                    }
                    for d in &expect_drop {
                        st.remove(d);
                    }
                    let text = handle.render();
                    let lines = match promparse::parse(&text) {
                        Ok(l) => l,
                        Err(e) => {
                            rep.violation("C12:render-unparseable", jo! {"what" => "render() output does not parse", "error" => e.msg});
                            failed = true;
                            continue;
                        }
                    };
                    // observed: name -> value (counter/gauge value, histogram/summary _count)
                    let mut seen_now: BTreeMap<String, f64> = BTreeMap::new();
                    for l in &lines {
                        if let Line::Sample { name, value, .. } = l {
                            if let Some(base) = name.strip_suffix("_count") {
                                seen_now.insert(base.to_string(), *value);
                            } else if !name.ends_with("_sum") && !name.ends_with("_bucket") && (name.starts_with("c_") || name.starts_with("g_")) {
                                seen_now.insert(name.clone(), *value);
                            }
                        }
                    }
                    let exp: BTreeMap<String, f64> = st.iter().map(|(mi, (v, _, _))| (metrics_[*mi].1.clone(), *v)).collect();
                    if seen_now != exp {
                        let kept: Vec<&String> = seen_now.keys().filter(|k| !exp.contains_key(*k)).collect();
                        let gone: Vec<&String> = exp.keys().filter(|k| !seen_now.contains_key(*k)).collect();
                        let sig = if !gone.is_empty() { "C12:dropped-too-early:exporter" } else if !kept.is_empty() { "C12:kept-past-idle-deadline:exporter" } else { "C12:exporter-value-differs" };
                        rep.violation(sig, jo! {"what" => "series present in render() differ from the reference idle state machine", "rendered" => format!("{:?}", seen_now), "expected" => format!("{:?}", exp), "mask_bits" => bits as u64, "timeout_ns" => format!("{:?}", timeout_ns),
                        "trace_tail" => J::A(trace.iter().rev().take(16).rev().map(|s| J::s(s.clone())).collect())});
                        failed = true;
                    }
                }
            }
        }
        rep.case(h, timeout_ns.is_some() && bits != 0);
        if rep.want_sample() && trace.len() > 12 && timeout_ns.is_some() && bits != 0 {
            rep.sample(jo! {"through" => "PrometheusBuilder::idle_timeout + render()", "mask_bits" => bits as u64, "timeout_ns" => timeout_ns.unwrap(), "trace" => J::A(trace.iter().take(18).map(|s| J::s(s.clone())).collect())});
        }
    }
    let _ = (fnv, rt::stamp);
    rep
}
