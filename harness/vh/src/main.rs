//! vh — verification harness for metrics-rs/metrics (runtime monitoring family).
//! Usage: vh <PROP> --leg <leg> --tier quick|thorough --seed N --shard i --shards n --out file
#[macro_use]
mod rt;
mod doubles;
mod lin;
mod promparse;
mod dsdparse;
mod props;

fn main() {
    let args = rt::Args::parse();
    rt::install_hook();
    if cfg!(miri) {
        rt::set_yield_only(true);
    }
    let report = props::dispatch(&args);
    match report {
        Some(r) => {
            r.write_to(&args.out);
        }
        None => {
            eprintln!("unknown property/leg: {} {}", args.prop, args.leg);
            std::process::exit(3);
        }
    }
}
