//! Small Wing–Gong linearizability checker with memoisation (histories of <= 20 operations).
#![allow(dead_code)]
use std::collections::HashSet;
use std::hash::Hash;

#[derive(Clone, Debug)]
pub struct HOp<O> {
    pub call: u64,
    pub ret: u64,
    pub op: O,
}

pub enum LinResult {
    Linearizable,
    NotLinearizable,
    Budget,
}

/// `step(state, op) -> Some(new_state)` iff applying `op` (which carries its observed result) to `state`
/// is consistent with the sequential specification.
pub fn check<S: Clone + Hash + Eq, O>(init: S, ops: &[HOp<O>], step: &dyn Fn(&S, &O) -> Option<S>, budget: u64) -> LinResult {
    let n = ops.len();
    assert!(n <= 24);
    let full: u32 = if n == 32 { u32::MAX } else { (1u32 << n) - 1 };
    let mut seen: HashSet<(u32, S)> = HashSet::new();
    let mut stack: Vec<(u32, S)> = vec![(0, init)];
    let mut visited = 0u64;
    while let Some((done, st)) = stack.pop() {
        if done == full {
            return LinResult::Linearizable;
        }
        visited += 1;
        if visited > budget {
            return LinResult::Budget;
        }
        // minimal return among pending ops: an op may go next only if it was called before that
        let mut min_ret = u64::MAX;
        for (i, o) in ops.iter().enumerate() {
            if done & (1 << i) == 0 && o.ret < min_ret {
                min_ret = o.ret;
            }
        }
        for (i, o) in ops.iter().enumerate() {
            if done & (1 << i) != 0 || o.call > min_ret {
                continue;
            }
            if let Some(ns) = step(&st, &o.op) {
                let key = (done | (1 << i), ns);
                if seen.insert(key.clone()) {
                    stack.push(key);
                }
            }
        }
    }
    LinResult::NotLinearizable
}
