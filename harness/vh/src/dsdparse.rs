//! Independent DogStatsD datagram parser (one message): `name:v[:v...]|t[|@rate][|#tags][|T ts]\n`.
#![allow(dead_code)]

#[derive(Clone, Debug, PartialEq)]
pub struct Msg {
    pub name: String,
    pub values: Vec<String>,
    pub ty: String,
    pub rate: Option<String>,
    pub tags: Vec<(String, Option<String>)>,
    pub ts: Option<u64>,
}

pub fn parse(body: &[u8]) -> Result<Msg, String> {
    let s = std::str::from_utf8(body).map_err(|_| "payload is not UTF-8".to_string())?;
    if !s.ends_with('\n') {
        return Err("message does not end with a newline".into());
    }
    let s = &s[..s.len() - 1];
    if s.contains('\n') {
        return Err("more than one message in a payload".into());
    }
    let mut sections = s.split('|');
    let head = sections.next().ok_or("empty")?;
    let mut hp = head.split(':');
    let name = hp.next().unwrap_or("").to_string();
    let values: Vec<String> = hp.map(|x| x.to_string()).collect();
    if values.is_empty() {
        return Err("no value".into());
    }
    for v in &values {
        if v.is_empty() {
            return Err("empty value".into());
        }
    }
    let ty = sections.next().ok_or("no type section")?.to_string();
    if !["c", "g", "h", "d", "ms", "s"].contains(&ty.as_str()) {
        return Err(format!("unknown metric type {:?}", ty));
    }
    let mut rate = None;
    let mut tags = Vec::new();
    let mut ts = None;
    let mut stage = 0; // sections must come in the order @rate, #tags, T ts
    for sec in sections {
        if let Some(r) = sec.strip_prefix('@') {
            if stage > 0 {
                return Err("sample rate out of order / repeated".into());
            }
            stage = 1;
            rate = Some(r.to_string());
        } else if let Some(t) = sec.strip_prefix('#') {
            if stage > 1 {
                return Err("tags out of order / repeated".into());
            }
            stage = 2;
            if t.is_empty() {
                return Err("empty tag section".into());
            }
            for tag in t.split(',') {
                if tag.is_empty() {
                    // an empty tag name: representable only as an empty element
                    tags.push((String::new(), None));
                    continue;
                }
                match tag.find(':') {
                    Some(p) => tags.push((tag[..p].to_string(), Some(tag[p + 1..].to_string()))),
                    None => tags.push((tag.to_string(), None)),
                }
            }
        } else if let Some(t) = sec.strip_prefix('T') {
            if stage > 2 {
                return Err("timestamp repeated".into());
            }
            stage = 3;
            ts = Some(t.parse::<u64>().map_err(|_| "bad timestamp".to_string())?);
        } else {
            return Err(format!("unknown section {:?}", sec));
        }
    }
    Ok(Msg { name, values, ty, rate, tags, ts })
}
