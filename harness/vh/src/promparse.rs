//! Strict, independent parser for the Prometheus text exposition format (version 0.0.4).
//! Shares no code with the repository. Every deviation from the grammar is an error.
#![allow(dead_code)]

#[derive(Clone, Debug, PartialEq)]
pub enum Line {
    Help { name: String, text: String },
    Type { name: String, ty: String },
    Sample { name: String, labels: Vec<(String, String)>, value: f64, raw_value: String },
    Blank,
}

#[derive(Clone, Debug)]
pub struct ParseError {
    pub line_no: usize,
    pub line: String,
    pub msg: String,
}

fn is_name_start(c: char, colon: bool) -> bool {
    c.is_ascii_alphabetic() || c == '_' || (colon && c == ':')
}
fn is_name_char(c: char, colon: bool) -> bool {
    c.is_ascii_alphanumeric() || c == '_' || (colon && c == ':')
}

pub fn valid_metric_name(s: &str) -> bool {
    let mut it = s.chars();
    match it.next() {
        Some(c) if is_name_start(c, true) => {}
        _ => return false,
    }
    it.all(|c| is_name_char(c, true))
}
pub fn valid_label_name(s: &str) -> bool {
    let mut it = s.chars();
    match it.next() {
        Some(c) if is_name_start(c, false) => {}
        _ => return false,
    }
    it.all(|c| is_name_char(c, false))
}

/// Go strconv.ParseFloat-compatible subset used by Prometheus: decimal floats with optional exponent,
/// and (case-insensitive) inf / infinity / nan with optional sign.
pub fn parse_go_float(s: &str) -> Option<f64> {
    if s.is_empty() {
        return None;
    }
    let (sign, body) = match s.as_bytes()[0] {
        b'+' => (1.0, &s[1..]),
        b'-' => (-1.0, &s[1..]),
        _ => (1.0, s),
    };
    let lower = body.to_ascii_lowercase();
    if lower == "inf" || lower == "infinity" {
        return Some(sign * f64::INFINITY);
    }
    if lower == "nan" {
        return Some(f64::NAN);
    }
    // digits [. digits] [e [+-] digits]  |  . digits [...]
    let b = body.as_bytes();
    let mut i = 0;
    let mut digits = 0;
    while i < b.len() && b[i].is_ascii_digit() {
        i += 1;
        digits += 1;
    }
    if i < b.len() && b[i] == b'.' {
        i += 1;
        while i < b.len() && b[i].is_ascii_digit() {
            i += 1;
            digits += 1;
        }
    }
    if digits == 0 {
        return None;
    }
    if i < b.len() && (b[i] == b'e' || b[i] == b'E') {
        i += 1;
        if i < b.len() && (b[i] == b'+' || b[i] == b'-') {
            i += 1;
        }
        let mut ed = 0;
        while i < b.len() && b[i].is_ascii_digit() {
            i += 1;
            ed += 1;
        }
        if ed == 0 {
            return None;
        }
    }
    if i != b.len() {
        return None;
    }
    body.parse::<f64>().ok().map(|v| sign * v)
}

fn err(line_no: usize, line: &str, msg: &str) -> ParseError {
    ParseError { line_no, line: line.chars().take(200).collect(), msg: msg.to_string() }
}

pub fn parse(text: &str) -> Result<Vec<Line>, ParseError> {
    let mut out = Vec::new();
    if text.is_empty() {
        return Ok(out);
    }
    if !text.ends_with('\n') {
        return Err(err(0, "", "exposition does not end with a newline"));
    }
    // lines are separated by '\n' only; a '\r' is an ordinary (invalid outside of values) character
    let body = &text[..text.len() - 1];
    for (idx, line) in body.split('\n').enumerate() {
        let ln = idx + 1;
        if line.is_empty() {
            out.push(Line::Blank);
            continue;
        }
        if let Some(rest) = line.strip_prefix("# HELP ") {
            let (name, text) = match rest.find(' ') {
                Some(p) => (&rest[..p], &rest[p + 1..]),
                None => (rest, ""),
            };
            if !valid_metric_name(name) {
                return Err(err(ln, line, "HELP: invalid metric name"));
            }
            // help text escapes: \\ and \n only
            let mut t = String::new();
            let mut it = text.chars();
            while let Some(c) = it.next() {
                if c == '\\' {
                    match it.next() {
                        Some('\\') => t.push('\\'),
                        Some('n') => t.push('\n'),
                        Some(o) => {
                            // other escapes are passed through by the reference parser
                            t.push('\\');
                            t.push(o);
                        }
                        None => return Err(err(ln, line, "HELP: dangling backslash")),
                    }
                } else {
                    t.push(c);
                }
            }
            out.push(Line::Help { name: name.to_string(), text: t });
            continue;
        }
        if let Some(rest) = line.strip_prefix("# TYPE ") {
            let mut parts = rest.split(' ');
            let name = parts.next().unwrap_or("");
            let ty = parts.next().unwrap_or("");
            if parts.next().is_some() {
                return Err(err(ln, line, "TYPE: trailing tokens"));
            }
            if !valid_metric_name(name) {
                return Err(err(ln, line, "TYPE: invalid metric name"));
            }
            if !["counter", "gauge", "histogram", "summary", "untyped"].contains(&ty) {
                return Err(err(ln, line, "TYPE: unknown type"));
            }
            out.push(Line::Type { name: name.to_string(), ty: ty.to_string() });
            continue;
        }
        if line.starts_with('#') {
            return Err(err(ln, line, "comment line that is neither HELP nor TYPE"));
        }
        // sample
        let chars: Vec<char> = line.chars().collect();
        let mut i = 0;
        while i < chars.len() && chars[i] != '{' && chars[i] != ' ' {
            i += 1;
        }
        let name: String = chars[..i].iter().collect();
        if !valid_metric_name(&name) {
            return Err(err(ln, line, "sample: invalid metric name"));
        }
        let mut labels = Vec::new();
        if i < chars.len() && chars[i] == '{' {
            i += 1;
            loop {
                if i < chars.len() && chars[i] == '}' {
                    i += 1;
                    break;
                }
                let st = i;
                while i < chars.len() && chars[i] != '=' {
                    i += 1;
                }
                if i >= chars.len() {
                    return Err(err(ln, line, "sample: label without '='"));
                }
                let lname: String = chars[st..i].iter().collect();
                if !valid_label_name(&lname) {
                    return Err(err(ln, line, "sample: invalid label name"));
                }
                i += 1;
                if i >= chars.len() || chars[i] != '"' {
                    return Err(err(ln, line, "sample: label value not quoted"));
                }
                i += 1;
                let mut val = String::new();
                loop {
                    if i >= chars.len() {
                        return Err(err(ln, line, "sample: unterminated label value"));
                    }
                    let c = chars[i];
                    i += 1;
                    if c == '"' {
                        break;
                    }
                    if c == '\\' {
                        if i >= chars.len() {
                            return Err(err(ln, line, "sample: dangling backslash in label value"));
                        }
                        let e = chars[i];
                        i += 1;
                        match e {
                            '\\' => val.push('\\'),
                            '"' => val.push('"'),
                            'n' => val.push('\n'),
                            _ => return Err(err(ln, line, "sample: invalid escape in label value")),
                        }
                    } else {
                        val.push(c);
                    }
                }
                labels.push((lname, val));
                if i < chars.len() && chars[i] == ',' {
                    i += 1;
                    continue;
                }
                if i < chars.len() && chars[i] == '}' {
                    i += 1;
                    break;
                }
                return Err(err(ln, line, "sample: expected ',' or '}' after label"));
            }
        }
        if i >= chars.len() || chars[i] != ' ' {
            return Err(err(ln, line, "sample: expected single space before value"));
        }
        i += 1;
        let rest: String = chars[i..].iter().collect();
        let mut toks = rest.split(' ');
        let v = toks.next().unwrap_or("");
        let ts = toks.next();
        if toks.next().is_some() {
            return Err(err(ln, line, "sample: trailing tokens"));
        }
        if let Some(ts) = ts {
            if ts.parse::<i64>().is_err() {
                return Err(err(ln, line, "sample: invalid timestamp"));
            }
        }
        let value = match parse_go_float(v) {
            Some(x) => x,
            None => return Err(err(ln, line, "sample: value is not a Go float")),
        };
        // duplicate label names
        for a in 0..labels.len() {
            for b in (a + 1)..labels.len() {
                if labels[a].0 == labels[b].0 {
                    return Err(err(ln, line, "sample: duplicate label name"));
                }
            }
        }
        out.push(Line::Sample { name, labels, value, raw_value: v.to_string() });
    }
    Ok(out)
}

#[derive(Clone, Debug, Default)]
pub struct Family {
    pub name: String,
    pub ty: String,
    pub help: Option<String>,
    pub samples: Vec<(String, Vec<(String, String)>, f64, String)>,
}

/// Structural rules on top of the line grammar: one TYPE per family, TYPE before its samples, every sample
/// belongs to the most recent family and uses a suffix its type allows; le/quantile rules.
pub fn families(lines: &[Line]) -> Result<Vec<Family>, String> {
    let mut fams: Vec<Family> = Vec::new();
    let mut pending_help: Option<(String, String)> = None;
    for l in lines {
        match l {
            Line::Blank => {}
            Line::Help { name, text } => {
                if fams.iter().any(|f| f.name == *name) {
                    return Err(format!("HELP for family {} after it was already emitted", name));
                }
                if pending_help.is_some() {
                    return Err("two HELP lines without a TYPE in between".into());
                }
                pending_help = Some((name.clone(), text.clone()));
            }
            Line::Type { name, ty } => {
                if fams.iter().any(|f| f.name == *name) {
                    return Err(format!("second TYPE line for family {}", name));
                }
                let help = match pending_help.take() {
                    Some((hn, ht)) => {
                        if hn != *name {
                            return Err(format!("HELP {} followed by TYPE {}", hn, name));
                        }
                        Some(ht)
                    }
                    None => None,
                };
                fams.push(Family { name: name.clone(), ty: ty.clone(), help, samples: Vec::new() });
            }
            Line::Sample { name, labels, value, raw_value } => {
                if pending_help.is_some() {
                    return Err("sample between HELP and TYPE".into());
                }
                let f = match fams.last_mut() {
                    Some(f) => f,
                    None => return Err(format!("sample {} before any TYPE line", name)),
                };
                let suffix = match name.strip_prefix(f.name.as_str()) {
                    Some(s) => s,
                    None => return Err(format!("sample {} does not belong to the preceding family {}", name, f.name)),
                };
                let has = |k: &str| labels.iter().any(|(n, _)| n == k);
                let ok = match (f.ty.as_str(), suffix) {
                    ("counter", "") | ("gauge", "") | ("untyped", "") => !has("le") || true,
                    ("histogram", "_bucket") => has("le"),
                    ("histogram", "_sum") | ("histogram", "_count") => !has("le"),
                    ("summary", "") => has("quantile"),
                    ("summary", "_sum") | ("summary", "_count") => !has("quantile"),
                    _ => false,
                };
                if !ok {
                    return Err(format!("sample {} (labels {:?}) is not allowed in family {} of type {}", name, labels.iter().map(|l| l.0.as_str()).collect::<Vec<_>>(), f.name, f.ty));
                }
                f.samples.push((name.clone(), labels.clone(), *value, raw_value.clone()));
            }
        }
    }
    if pending_help.is_some() {
        return Err("HELP without TYPE at the end".into());
    }
    Ok(fams)
}
