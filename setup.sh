#!/bin/bash
# One-time, offline setup: vendor directory from the local cargo caches + pre-build of the harness flavours.
set -u
cd "$(dirname "$0")"
export CARGO_NET_OFFLINE=true
mkdir -p work evidence replays
SR=$(rustc +nightly --print sysroot 2>/dev/null)
STDLOCK="$SR/lib/rustlib/src/rust/library/Cargo.lock"
if [ -f "$STDLOCK" ]; then
  VENDOR_STD_LIBRARY="$SR/lib/rustlib/src/rust/library" python3 tools/vendor.py "$PWD/vendor" harness/Cargo.lock "$STDLOCK" || exit 1
else
  python3 tools/vendor.py "$PWD/vendor" harness/Cargo.lock || exit 1
fi
if [ "${1:-}" = "--vendor-only" ]; then exit 0; fi
# Pre-build (failures of optional sanitizer flavours are reported by the checks as 'unavailable', never as violations).
./check build native || exit 1
./check build miri || echo "setup: miri flavour unavailable" >&2
./check build asan || echo "setup: asan flavour unavailable" >&2
./check build tsan || echo "setup: tsan flavour unavailable" >&2
exit 0
