#!/bin/bash
# One-time, offline setup: vendor directory from the local cargo caches + pre-build of the harness flavours.
set -u
cd "$(dirname "$0")"
export CARGO_NET_OFFLINE=true
mkdir -p work evidence replays
python3 tools/vendor.py "$PWD/vendor" harness/Cargo.lock || exit 1
if [ "${1:-}" = "--vendor-only" ]; then exit 0; fi
# Pre-build (failures of optional sanitizer flavours are reported by the checks as 'unavailable', never as violations).
./check build native || exit 1
./check build miri || echo "setup: miri flavour unavailable" >&2
./check build asan || echo "setup: asan flavour unavailable" >&2
exit 0
