"""Per-property claim texts for MANIFEST.json."""
NOT_APPLICABLE_REASON = {}
CLAIMS = {
    "C03": {
        "text": "Exploration: ~250k key pairs per quick run (millions thorough) from collision-prone alphabets through 10 construction paths are checked against the Eq/Ord/Hash laws and a canonical-form model; racing first get_hash() calls are forced into the window between the two publishing stores by a gate hook, and re-run under Miri's weak-memory scheduler. Held = no counterexample among the pairs/interleavings observed.",
        "note": "Trusts the harness's canonical-form model (name + sorted label multiset) and the recording hasher; x86 hides store reorderings natively, so ordering bugs between the two atomics are only observable through the hook gate (program-order swaps) and Miri (weak memory).",
        "technique": "runtime monitoring: relational oracle over generated key pools + gated/Miri race executions",
    },
}
