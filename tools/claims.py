"""Per-property claim texts for MANIFEST.json."""
NOT_APPLICABLE_REASON = {}
CLAIMS = {
    "C03": {
        "text": "Exploration: ~250k key pairs per quick run (millions thorough) from collision-prone alphabets through 10 construction paths are checked against the Eq/Ord/Hash laws and a canonical-form model; racing first get_hash() calls are forced into the window between the two publishing stores by a gate hook, and re-run under Miri's weak-memory scheduler; clones taken while another thread performs the first get_hash() of a key with a megabyte-sized name must hash like the original. Held = no counterexample among the pairs/interleavings observed.",
        "note": "Trusts the harness's canonical-form model (name + sorted label multiset) and the recording hasher; x86 hides store reorderings natively, so ordering bugs between the two atomics are only observable through the hook gate (program-order swaps) and Miri (weak memory).",
        "technique": "runtime monitoring: relational oracle over generated key pools + gated/Miri race executions",
    },
}
CLAIMS["C05"] = {
    "text": "Exploration with deterministic window coverage: every hook window of push/clear_with/data_with (11 windows) is entered by every intruding operation (push, data_with, clear_with, is_empty) over 11 prefill shapes through directed gates; thousands of randomly-held and stress executions add undirected interleavings; an offline interval oracle over unique-id histories decides exactly-once / no-loss / no-fabrication / snapshot-completeness / is_empty truthfulness / slice order; drop-counting elements decide exactly-once destruction; the same workloads run under ASan+LSan and Miri (tree borrows, weak memory). Held = no violating history among the executions observed.",
    "note": "Windows exist only where hook points exist (atomic steps of push/clear_with/data_with); orderings weaker than x86-TSO are visible only in the Miri leg (2-3 threads, tens of ops); crossbeam-epoch is trusted.",
    "technique": "runtime monitoring: offline interval/exactly-once checker over stamped unique-value histories; directed gate + random-hold hook schedules; ASan/LSan, TSan, Miri and valgrind-memcheck legs",
}
CLAIMS["C13"] = {
    "text": "Exploration: tens of thousands (quick) to millions (thorough) of operations through randomly composed Prefix/Filter/Router/Fanout trees; every delivery to every leaf recorder (name, labels, metadata, unit, description, handle updates incl. record_many) is compared with a reference implementation of the four layer semantics and their composition. Held = no mismatch in the operations observed.",
    "note": "Trusts the reference semantics written from the property text (ASCII case-insensitivity; longest-prefix; later duplicate route wins); mixed masks other than single kinds/ALL are outside the quantifier (the builder panics on them by design).",
    "technique": "runtime monitoring: logging recorder doubles beneath generated layer stacks, compared against an executable reference model per operation",
}
CLAIMS["C01"] = {
    "text": "Exploration: thousands (quick) to hundreds of thousands (thorough) of generated scope programs per run — arbitrary nesting of with_local_recorder, guards dropped in any order, leaked guards, guards escaping closures, panics unwinding through scopes, 1-4 threads, with and without a process-global recorder — each emission (66 macro shapes) checked against a per-thread scope model by logging recorder doubles; the same programs with really-freed recorders run under ASan and Miri so a dispatch after the borrow ended is a reported memory error. Held = no emission observed at a wrong/ended recorder or with altered fields, apart from the listed known finding.",
    "note": "Scope model: innermost live install wins, else global, else nothing observable. After mem::forget only the 'never after borrow ended' clause is judged. The no-op recorder is observed only as absence of deliveries.",
    "technique": "runtime monitoring: logging recorder doubles + per-thread scope reference model over generated programs; ASan/Miri/valgrind-memcheck legs with real frees",
}
CLAIMS["C04"] = {
    "text": "Exploration: multi-threaded runs over clones of one handle check exact conservation (counter sum mod 2^64, gauge exact sums), monotonicity and the max-absolute bound; thousands of short concurrent gauge histories are checked for linearizability against a sequential register-with-add model; record/record_many delivery counts and IntoF64 conversions are checked through logging doubles for every value class; Miri re-runs small versions. Held = no lost/duplicated update or non-linearizable history observed.",
    "note": "x86 atomics are stronger than the orderings written in the source; weaker orderings are only exercised by the Miri leg. Gauge sums are judged on exactly representable operands only.",
    "technique": "runtime monitoring: conservation/monotonicity oracles over stress runs + Wing-Gong linearizability check of recorded gauge histories; logging HistogramFn doubles",
}
CLAIMS["C02"] = {
    "text": "Exploration with forced windows: every atomic step of set() (after the CAS, after the pointer write) and of try_load() (after the state check) is held open by gates while the other installers and loaders run to completion; thousands of additional randomly-held trials and real-global-cell processes; the stamped history of each trial is checked against a write-once register (at most one Ok, value never changes or disappears, visible after the successful set returned), a payload canary (seen whole) and drop counters (rejected recorder handed back intact, neither dropped nor leaked). Miri runs the same race with its weak-memory scheduler and reports publication without happens-before as a data race.",
    "note": "One global cell per process, so the real-global leg has one trial per process; the cell legs use the cfg-exported RecorderOnceCell type, which is the type of the global.",
    "technique": "runtime monitoring: gated/random hook schedules on fresh once-cells, write-once-register history oracle, canary + drop accounting; Miri data-race detection",
}
CLAIMS["C20"] = {
    "text": "Exploration with a forced window: an emitter is held immediately after its weak-to-strong upgrade while into_inner (or the handle drop) runs, plus thousands of randomly held and free-running trials; a recorder double stamps every entry/exit, lingers inside, and records finalisation, so 'into_inner returned while a call was inside', 'a call entered after finalisation began', lost live emissions, deliveries after recovery, live handles after recovery and the drop count are decided on the recorded history. The real install() is exercised one process per trial on both the success and the already-installed path. Miri re-runs small trials with the leak checker on.",
    "note": "Liveness of into_inner is only checked as bounded progress where no emission is in flight (failure path of install). One history class is a listed known finding (deliveries after drop(handle) while another emission is in flight).",
    "technique": "runtime monitoring: enter/exit-stamping recorder double + gated upgrade window; offline check of recovery vs emission intervals; process-per-trial for the global install; Miri",
}
CLAIMS["C14"] = {
    "text": "Exploration including a complete small-scope sweep: all op sequences of length <= 3 over 9 operations x 30 constructor shapes x {str, slices of drop-counting elements} (~49k sequences) plus random long sequences; after every step the content, every Arc strong count and the number of live elements are compared with a reference model; the sweep and random sequences are repeated under ASan+LSan (double free, use after free, leaked buffers) and a reduced sweep under Miri with Stacked Borrows and the leak checker (invalid from_raw_parts, dangling reads, leaks).",
    "note": "The cfg-exported Cow type is the one behind SharedString / label slices. Miri's sweep is reduced (length <= 2, a third of the shapes at length 2) for time.",
    "technique": "runtime monitoring: reference ownership model (content, refcounts, live destructors) checked after every operation of enumerated and random sequences; ASan/LSan, Miri and valgrind-memcheck legs",
}
CLAIMS["C06"] = {
    "text": "Exploration: sequential histories against a reference map with identity-carrying storage doubles (one storage per live (kind,key), no sharing between keys/kinds, truthful delete/retain/clear/listing) under 16, 4 and 1 registry shards; racing creators/getters/deleters with the read-unlock/write-lock window forced by a gate, each per-key sub-history checked for linearizability as a single atomic map entry; Miri re-runs small races. Held = no divergence from the map model and no non-linearizable key history observed.",
    "note": "Shard counts are varied only through CPU affinity (available_parallelism): 1, 4 and 16. Keys with >= 3 labels and repeated label names are excluded (their equality is order-sensitive by design, see C03).",
    "technique": "runtime monitoring: reference-map comparison with identity-carrying storage doubles; per-key Wing-Gong linearizability of recorded concurrent histories; gated lock-upgrade window; Miri",
}
CLAIMS["C16"] = {
    "text": "Exploration: exact cycle model over all capacity/push-count boundary shapes (incl. capacity 0) decides the count, content, sample-rate and emptiness clauses; a fixed-threshold binomial test over hundreds of thousands of independent trials decides position uniformity (a one-slot bias gives |z| in the hundreds); pushes overlapping drains are forced by a gate between a pusher's side choice and its slot claim and judged by an exactly-once interval rule on unique values; Miri re-runs the overlap for data races.",
    "note": "Uniformity is statistical (stated false-alarm bound). Pushes overlapping a drain are a listed known finding; every other anomaly is a violation.",
    "technique": "runtime monitoring: exact reference model per push/drain cycle; fixed-threshold binomial retention test; gated push/drain overlap with exactly-once interval oracle; Miri",
}
CLAIMS["C15"] = {
    "text": "Exploration: tens of thousands of (bounds, samples, batching) cases against the <= / cumulative / +Inf / single-vs-batch rules; override precedence against a reference matcher; rolling summaries driven by a mock clock at window and bucket edges with outliers that must expire. Held = no counterexample among the cases observed.",
    "note": "Matcher precedence among several candidates of the same class is not judged (the property orders classes only). Rendered output of these structures is cross-checked by C07/C08.",
    "technique": "runtime monitoring: reference bucket/matcher/window models compared with the real structures over generated cases (mock clock)",
}
CLAIMS["C12"] = {
    "text": "Exploration: thousands of update/advance/observe histories under a mock clock, with advances placed exactly at, one tick below and above the timeout, checked step by step against a per-(kind,key) reference idle state machine, both directly against Recency+Registry (including the same key under two kinds) and through the Prometheus exporter's render(). Held = the dropped set and the surviving values matched the reference at every observation.",
    "note": "Time is the mocked quanta clock; the exporter leg uses distinct names per kind as the exporter requires.",
    "technique": "runtime monitoring: reference idle state machine stepped in lock-step with the real recency/registry under a mock clock",
}
CLAIMS["C07"] = {
    "text": "Exploration: thousands of configuration x metric-set x history cases rendered and parsed back by an independent strict parser and compared with a reference model of what was recorded (totals, last gauge bits, cumulative buckets, +Inf, sums, merged labels, first description, type, idempotent re-render); concurrent recorder/render/upkeep runs are judged by per-render interval bounds (completed-before-call <= value <= invoked-before-return, monotone across non-overlapping renders) and exact conservation at quiescence, also with random holds injected at the bucket's hook points.",
    "note": "Backslash-containing values are outside the round-trip claim; summaries' quantile values are not compared (they age with real time). Relies on C05's bucket for sample conservation under concurrency.",
    "technique": "runtime monitoring: render() parsed by an independent strict parser and compared with a reference model per history; interval/conservation oracle over concurrent recorder vs render histories",
}
CLAIMS["C08"] = {
    "text": "Exploration: thousands of renders over hostile strings in every user-controlled position must satisfy an independent strict grammar and the family-structure rules, and an injection probe checks that user data containing complete fake lines never adds or removes a family or label. Held = every output observed parsed, was well structured and contained exactly the model's families.",
    "note": "The strict parser is the trusted base; values with backslashes are checked for well-formedness only, as the property states.",
    "technique": "runtime monitoring: strict exposition-format parser + family-structure checker + injection probe over renders of hostile inputs",
}
CLAIMS["C09"] = {
    "text": "Exploration: tens of thousands of writer lifetimes (quick; millions thorough) with limits placed at message length +-few bytes, both framing modes, prefixes, global tags, extreme values and write/drain sequences including rejected metrics followed by accepted ones; every emitted byte is decoded by an independent parser and every accounting identity is checked per write and per lifetime; panics inside the writer are caught and reported as violations (overflow checks on).",
    "note": "Driven through the cfg-guarded public wrapper around the crate-private PayloadWriter; the drain wrapper does exactly what the forwarder does per flush.",
    "technique": "runtime monitoring: independent DogStatsD decoder + accounting identities over generated writer lifetimes; panic capture",
}
CLAIMS["C10"] = {
    "text": "Exploration with forced windows: every atomic step of increment/absolute is held open across a complete flush and every step of AtomicCounter::flush is held open until an updater finished (gates), plus random holds and free runs; the decoded flush outputs are judged by conservation and interval rules on stamped update/flush histories (sum of deltas == increments, absolute last-first, no delta beyond what was invoked, zero exactly once, gauge recency, each histogram value in exactly one flush and never late, timestamp per documented mode); real exporters are run end to end against unix stream (length-prefixed), unixgram and UDP sockets and every received frame is decoded.",
    "note": "The flush driver is the cfg-guarded wrapper that performs exactly the forwarder's per-cycle steps. Sampling (reservoir) is covered by C16. One history class is a listed known finding (first absolute() racing a flush).",
    "technique": "runtime monitoring: gated hook schedules on the aggregation atomics + conservation/interval oracle over decoded flush outputs; socket-level capture with independent decoder",
}
CLAIMS["C19"] = {
    "text": "Exploration: thousands of describe/register/update/snapshot histories compared with a reference snapshot (membership, order of first registration, values, drain-once histogram contents, unit/description rules, isolation between recorders), plus concurrent recorder-vs-snapshot runs judged by exactly-once / never-late rules on unique histogram values and an interval rule on counters; Miri re-runs small concurrent cases.",
    "note": "Relies on C05/C06 for the bucket and registry; histogram values are unique per run so membership is unambiguous.",
    "technique": "runtime monitoring: reference snapshot model per history; exactly-once interval oracle over concurrent record vs snapshot histories; Miri",
}
CLAIMS["C17"] = {
    "text": "Exploration: thousands of span-tree scripts (nesting, explicit and root parents, late record(), shared field names across levels, all value types, several threads with different current spans under one subscriber) with ~100k emissions per quick run; each key reaching the inner recorder is compared with a reference label model under include-all, allow-list and custom filters.",
    "note": "Span shapes are a compiled family (tracing needs static callsites); field-name collisions across levels are deliberate.",
    "technique": "runtime monitoring: logging recorder beneath TracingContextLayer, compared per emission with a reference span-label model over generated span scripts",
}
CLAIMS["C18"] = {
    "text": "Exploration with fault injection: real HTTP listeners are scraped from harness sockets bound to chosen loopback source addresses inside, outside and at the edges of allow-listed networks; 403/empty-body versus 200 is decided against an independent CIDR reference, 200 bodies must be strict-parser-valid renderings whose values lie between the state before the request and after the response, /health must say OK, and well-formed clients must still be served after garbage, half-open, reset and concurrent connections. The builder must accept every documented allowlist syntax.",
    "note": "Only IPv4 loopback peers can be produced in this sandbox; IPv6 entries are exercised as non-matching entries only.",
    "technique": "runtime monitoring: socket-level client harness with scripted faults + HTTP response decoder + CIDR reference model + exposition parser",
}
CLAIMS["C11"] = {
    "text": "Exploration with fault scripts: real exporters for every buffer configuration (incl. no limit) are driven by tagged emissions from several threads while harness clients read, stall, close, reset and join late; every byte each client received is decoded by an independent protobuf decoder and judged (whole frames, metadata first, intact content, per-emitter order, no duplicate, no gap for reading clients under ack-based pacing), and the exporter's client accounting is checked against the harness's own view after every round. Non-serving configurations are established logically (listener refuses connections). A stall leg fills a non-reading client's socket with megabytes of large frames and requires whole frames after it resumes; a wake leg runs thousands of back-to-back bursts from several threads and requires bounded progress once the emitters are quiet (no progress for 3 s followed by immediate delivery after an unrelated wake-up is a violation).",
    "note": "Delivery is judged by logical evidence only (gaps, accounting, refused connections); pure wall-clock stalls are inconclusive. Miri cannot run mio, so this property is native-only.",
    "technique": "runtime monitoring: socket-level clients with scripted faults, independent frame decoder, per-emitter sequence oracle, state-invariant accessor",
}
