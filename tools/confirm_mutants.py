#!/usr/bin/env python3
"""Confirm seeded changes in a scratch worktree: patch applies, workspace tests pass with it, the demonstration fails with
it and passes without it. Writes <dir>/confirm.json. Usage: confirm_mutants.py <seeded-out-dir> [ids...]"""
import json, os, re, subprocess, sys, glob, shutil, time
src = sys.argv[1]
only = sys.argv[2:]
WT = "/tmp/wt-confirm"
ENV = dict(os.environ, CARGO_NET_OFFLINE="true")
def sh(cmd, cwd=WT, env=None, timeout=1800):
    e = dict(ENV); e.update(env or {})
    try:
        p = subprocess.run(cmd, cwd=cwd, shell=True, env=e, stdout=subprocess.PIPE, stderr=subprocess.STDOUT, text=True, timeout=timeout)
        return p.returncode, p.stdout
    except subprocess.TimeoutExpired as ex:
        return 124, (ex.stdout or "") + "\nTIMEOUT"
if not os.path.isdir(WT):
    subprocess.run(["git", "-C", "/repo", "worktree", "add", "-q", "--detach", WT, "HEAD"], check=True)
else:
    sh("git checkout -q --detach $(git -C /repo rev-parse HEAD) && git checkout -- . && git clean -fdq -e target")
dirs = sorted(d for d in glob.glob(os.path.join(src, "C??-m*")) if not only or os.path.basename(d) in only)
for d in dirs:
    name = os.path.basename(d)
    out = {"mutant": name, "repo_head": subprocess.run(["git","-C","/repo","rev-parse","--short","HEAD"],capture_output=True,text=True).stdout.strip()}
    sh("git checkout -- . && git clean -fdq -e target")
    demo_rs = open(os.path.join(d, "demo.rs")).read() if os.path.exists(os.path.join(d, "demo.rs")) else ""
    demo_md = open(os.path.join(d, "demo.md")).read() if os.path.exists(os.path.join(d, "demo.md")) else ""
    m = re.search(r"([\w\-]+/tests/[\w]+\.rs)", demo_rs[:1500] + demo_md)
    if not m:
        out["status"] = "no-demo-location"; json.dump(out, open(os.path.join(d, "confirm.json"), "w"), indent=1); print(name, out["status"]); continue
    rel = m.group(1); crate = rel.split("/")[0]; test = os.path.basename(rel)[:-3]
    verif = "metrics_verif" in demo_rs or ("cfg metrics_verif" in demo_md and "RUSTFLAGS" in demo_md and "demo" in demo_md.split("RUSTFLAGS")[1][:200])
    release = "--release" in demo_md
    env = {"RUSTFLAGS": "--cfg metrics_verif"} if verif else {}
    cmd = f"cargo test -p {crate} --offline {'--release ' if release else ''}--test {test} -- --nocapture"
    out.update({"demo_path": rel, "demo_cmd": ("RUSTFLAGS='--cfg metrics_verif' " if verif else "") + cmd})
    rc, o = sh(f"git apply {d}/patch.diff")
    if rc != 0:
        out["status"] = "patch-does-not-apply"; out["detail"] = o[-400:]; json.dump(out, open(os.path.join(d, "confirm.json"), "w"), indent=1); print(name, out["status"]); continue
    t0 = time.time()
    rc, o = sh("cargo test --workspace --offline --no-fail-fast 2>&1 | grep -E '^test result|FAILED|^error' ")
    fails = [l for l in o.splitlines() if "FAILED" in l or l.startswith("error") or ("test result" in l and " 0 failed" not in l)]
    out["suite_with_patch"] = "pass" if not fails and "test result" in o else "FAIL"
    out["suite_detail"] = fails[:5]
    os.makedirs(os.path.dirname(os.path.join(WT, rel)), exist_ok=True)
    shutil.copy(os.path.join(d, "demo.rs"), os.path.join(WT, rel))
    rc1, o1 = sh(cmd, env=env)
    out["demo_with_patch"] = "fails" if rc1 != 0 else "passes"
    out["demo_with_patch_tail"] = o1[-600:]
    sh(f"git apply -R {d}/patch.diff")
    rc2, o2 = sh(cmd, env=env)
    out["demo_without_patch"] = "passes" if rc2 == 0 else "fails"
    out["demo_without_patch_tail"] = o2[-300:]
    out["status"] = "confirmed" if (out["suite_with_patch"] == "pass" and rc1 != 0 and rc2 == 0) else "NOT-confirmed"
    out["wall_s"] = round(time.time() - t0)
    json.dump(out, open(os.path.join(d, "confirm.json"), "w"), indent=1)
    print(name, out["status"], out["suite_with_patch"], out["demo_with_patch"], out["demo_without_patch"], out["wall_s"], flush=True)
sh("git checkout -- . && git clean -fdq -e target")
