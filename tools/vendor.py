#!/usr/bin/env python3
"""Build /verif/vendor from the local cargo registry caches (offline).

For every registry package named in the given lockfiles, unpack the matching
.crate from any ~/.cargo/registry/cache/* directory into vendor/<name>-<ver>/,
verify the sha256 against the lockfile, write .cargo-checksum.json.
Packages that are in no cache get an empty stub crate (only ever needed for
foreign-platform crates in std's lockfile, which are never compiled on linux);
their feature lists are taken from what dependents request.
"""
import sys, os, re, json, hashlib, tarfile, glob, shutil

try:
    import tomllib
except ImportError:  # pragma: no cover
    tomllib = None

CACHES = glob.glob(os.path.expanduser("~/.cargo/registry/cache/*"))


def parse_lock(path):
    with open(path, "rb") as f:
        data = tomllib.load(f)
    out = []
    for p in data.get("package", []):
        if p.get("source", "").startswith("registry+"):
            out.append((p["name"], p["version"], p.get("checksum")))
    return out


def find_crate(name, ver):
    for c in CACHES:
        p = os.path.join(c, f"{name}-{ver}.crate")
        if os.path.exists(p):
            return p
    return None


def requested_features(name, manifests):
    feats = set()
    for m in manifests:
        try:
            with open(m, "rb") as f:
                d = tomllib.load(f)
        except Exception:
            continue
        tables = [d.get("dependencies", {}), d.get("dev-dependencies", {}), d.get("build-dependencies", {})]
        for t in d.get("target", {}).values():
            tables.append(t.get("dependencies", {}))
        for tab in tables:
            for k, v in tab.items():
                pkg = v.get("package", k) if isinstance(v, dict) else k
                if pkg == name and isinstance(v, dict):
                    feats.update(v.get("features", []))
        for fname, fl in d.get("features", {}).items():
            for item in fl:
                m2 = re.match(r"^([A-Za-z0-9_\-]+)\??/(.+)$", item)
                if m2 and m2.group(1) == name:
                    feats.add(m2.group(2))
    return feats


def main():
    vendor = sys.argv[1]
    locks = sys.argv[2:]
    os.makedirs(vendor, exist_ok=True)
    pkgs = {}
    for l in locks:
        for n, v, c in parse_lock(l):
            pkgs[(n, v)] = c
    stubs = []
    for (n, v), cks in sorted(pkgs.items()):
        dst = os.path.join(vendor, f"{n}-{v}")
        if os.path.exists(os.path.join(dst, ".cargo-checksum.json")):
            continue
        cr = find_crate(n, v)
        if cr is None:
            stubs.append((n, v, cks))
            continue
        h = hashlib.sha256(open(cr, "rb").read()).hexdigest()
        if cks and h != cks:
            print(f"vendor: checksum mismatch for {n}-{v}", file=sys.stderr)
            sys.exit(1)
        if os.path.exists(dst):
            shutil.rmtree(dst)
        with tarfile.open(cr, "r:gz") as t:
            t.extractall(vendor)
        with open(os.path.join(dst, ".cargo-checksum.json"), "w") as f:
            json.dump({"files": {}, "package": h}, f)
    if stubs:
        # manifests that may request features of the stubbed crates
        manifests = glob.glob(os.path.join(vendor, "*", "Cargo.toml"))
        sysroot_lib = os.environ.get("VENDOR_STD_LIBRARY")
        if sysroot_lib:
            manifests += glob.glob(os.path.join(sysroot_lib, "*", "Cargo.toml"))
        for n, v, cks in stubs:
            dst = os.path.join(vendor, f"{n}-{v}")
            os.makedirs(os.path.join(dst, "src"), exist_ok=True)
            feats = requested_features(n, manifests)
            feats |= {"default", "std", "alloc", "core", "rustc-dep-of-std", "compiler-builtins"}
            with open(os.path.join(dst, "Cargo.toml"), "w") as f:
                f.write(f'[package]\nname = "{n}"\nversion = "{v}"\nedition = "2021"\n\n[features]\n')
                for ft in sorted(feats):
                    f.write(f'"{ft}" = []\n' if not re.match(r"^[A-Za-z0-9_\-]+$", ft) else f"{ft} = []\n")
            open(os.path.join(dst, "src", "lib.rs"), "w").write("#![no_std]\n")
            with open(os.path.join(dst, ".cargo-checksum.json"), "w") as f:
                json.dump({"files": {}, "package": cks}, f)
        print(f"vendor: {len(stubs)} stub crates: {' '.join(n for n,_,_ in stubs)}")
    print(f"vendor: {len(pkgs)} packages in {vendor}")


if __name__ == "__main__":
    main()
