#!/bin/bash
# tools/mutant.sh <dir-with-patch.diff> <ID> [tier]  — apply a seeded change to /repo, run the check, revert.
d="$1"; id="$2"; tier="${3:-quick}"
cd /repo || exit 9
git diff --quiet || { echo "repo dirty"; exit 9; }
git apply "$d/patch.diff" || { echo "APPLY-FAILED $d"; exit 8; }
cd /verif
out=$(./check "$id" "$tier" 2>/tmp/mutant.err); rc=$?
echo "$out" | grep -E "VIOLATION|KNOWN|OK|INCONCLUSIVE" | head -5
grep "violation signature" /tmp/mutant.err | head -5
echo "MUTANT $(basename $d) check=$id rc=$rc"
git -C /repo checkout -- .
