#!/usr/bin/env python3
"""Print the DESIGN §9 table from seeded/*/meta.json + result.json."""
import json, glob, os
print("| seeded change | what it does (needs) | quick check | legs that fired | signatures |\n|---|---|---|---|---|")
for d in sorted(glob.glob("/verif/seeded/*")):
    n = os.path.basename(d)
    m = json.load(open(d + "/meta.json"))
    r = json.load(open(d + "/result.json")) if os.path.exists(d + "/result.json") else None
    summ = m.get("summary", "")
    summ = (summ[:150] + "…") if len(summ) > 150 else summ
    if r is None:
        print(f"| {n} | {summ} | not run | | |"); continue
    legs = ", ".join(sorted({s['leg'] for s in r['signatures']}))
    sigs = "; ".join(sorted({s['signature'] for s in r['signatures']})[:3])
    print(f"| {n} | {summ} | {'caught' if r['caught'] else 'MISSED'} | {legs} | {sigs} |")
