"""Per-property leg plans for ./check.  A leg = one workload under one build flavour, run as
`shards` processes (quick) / `shards_thorough` processes (thorough); the harness divides its
budget across shards."""

TB = "-Zmiri-tree-borrows"
IGN = "-Zmiri-ignore-leaks"

LEVEL_RULES = {}

PLAN = {
    "C03": {
        "level": "exploration",
        "deepen": 3,
        "rule": "pools of ~36 keys from tiny alphabets (6 names, 11 label names, 4 values, 0-10 labels, repeated names, "
                "10 construction paths); every ordered pair + sampled triples checked against the Eq/Ord/Hash laws and the "
                "canonical-form model; a case = unordered pair of (descriptor, path); non-trivial = same name and same label "
                "count; distinct = distinct pair hashes. Race legs: a case = (key, interleaving signature of between-stores/done events).",
        "assumptions": ["std Hash streams are compared through a recording hasher (call boundaries included)",
                        "weak-memory reorderings are only observable in the Miri leg"],
        "legs": [
            {"name": "native", "flavour": "native", "shards": 4, "shards_thorough": 16},
            {"name": "race", "flavour": "native", "shards": 4, "shards_thorough": 16},
            {"name": "clone-race", "flavour": "native", "shards": 2, "shards_thorough": 8},
            {"name": "miri-race", "flavour": "miri", "shards": 12, "shards_thorough": 64, "miriflags": IGN, "timeout": 900},
            {"name": "miri-seq", "flavour": "miri", "shards": 2, "shards_thorough": 8, "miriflags": IGN, "timeout": 900},
            {"name": "tsan-race", "leg": "race", "flavour": "tsan", "shards": 2, "shards_thorough": 8, "scale": 0.1, "timeout": 1200, "thorough_only": True},
            {"name": "tsan-clone-race", "leg": "clone-race", "flavour": "tsan", "shards": 2, "shards_thorough": 4, "scale": 0.1, "timeout": 1200, "thorough_only": True},
        ],
    },
    "C05": {
        "level": "exploration",
        "deepen": 2,
        "rule": "an execution = prefill (0/1/62..66/127..129/200 values) + 2-8 role threads (pushers, data/data_with readers, clear_with "
                "clearers, is_empty pollers) over one AtomicBucket<u64> of unique ids, every op stamped call/return from one counter; "
                "the offline oracle applies the interval rules E1-E7 (DESIGN §3 C05) to the merged history plus a final quiescent clear. "
                "gate leg: each of 11 hook windows x 4 intruding ops x 11 prefills forced deterministically; random leg: seeded holds at "
                "all 17 bucket hook points. distinct = distinct (interleaving signature over hook events, history stamps); non-trivial = "
                "contains a clear or snapshot concurrent with pushes. Three-party gated schedules (a reader / clear / is_empty poll between a pusher that claimed a slot and stalled and a pusher that completed the next slot) run for every prefill. memcheck legs run the small concurrent executions under valgrind (uninitialised-value use, invalid frees).",
        "assumptions": ["call/return stamps come from one SeqCst counter, so 'completed before' is sound w.r.t. real time",
                        "crossbeam-epoch is trusted (it is a dependency, not repository code); Miri runs it under tree borrows"],
        "legs": [
            {"name": "seq", "flavour": "native", "shards": 2, "shards_thorough": 8},
            {"name": "gate", "flavour": "native", "shards": 4, "shards_thorough": 16},
            {"name": "random", "flavour": "native", "shards": 8, "shards_thorough": 16},
            {"name": "stress", "flavour": "native", "shards": 1, "shards_thorough": 4},
            {"name": "drops", "flavour": "native", "shards": 2, "shards_thorough": 8},
            {"name": "asan", "flavour": "asan", "shards": 4, "shards_thorough": 16},
            {"name": "asan-drops", "flavour": "asan", "shards": 2, "shards_thorough": 8},
            {"name": "tsan", "flavour": "tsan", "shards": 2, "shards_thorough": 16, "scale": 0.3, "timeout": 1200},
            {"name": "miri", "flavour": "miri", "shards": 10, "shards_thorough": 96, "miriflags": TB + " " + IGN, "timeout": 1200},
            {"name": "miri-drops", "flavour": "miri", "shards": 4, "shards_thorough": 32, "miriflags": TB + " " + IGN, "timeout": 1200},
            {"name": "memcheck", "leg": "asan", "flavour": "memcheck", "shards": 2, "shards_thorough": 8, "scale_thorough": 10, "timeout": 1800},
            {"name": "memcheck-drops", "leg": "asan-drops", "flavour": "memcheck", "shards": 2, "shards_thorough": 8, "scale_thorough": 10, "timeout": 1800},
            {"name": "gate-big", "flavour": "native", "shards": 1, "shards_thorough": 4},
            {"name": "memcheck-gate-big", "leg": "gate-big", "flavour": "memcheck", "shards": 1, "shards_thorough": 2, "timeout": 1800},
        ],
    },
    "C13": {
        "level": "exploration",
        "deepen": 30,
        "rule": "random recorder trees (depth 1-3) of Prefix / Filter (0-3 patterns, case-insens. on/off, DFA on/off) / Router "
                "(0-4 routes, per-kind and ALL masks, overlapping and duplicate patterns incl. the empty one) / Fanout (0-3 wide) over "
                "logging leaf recorders; per tree 4-24 describe / register+update operations over a prefix-rich name alphabet; after each "
                "operation the leaf log is compared (as a multiset) with a reference router written from the property text. "
                "case = (tree shape, name, kind, op class); non-trivial = tree has >= 2 layers; distinct = distinct case hashes.",
        "assumptions": ["reference semantics: filter = substring (ASCII case-insensitive when configured), router = longest matching prefix among routes covering the kind, later duplicate wins"],
        "legs": [
            {"name": "native", "flavour": "native", "shards": 4, "shards_thorough": 16},
        ],
    },
    "C01": {
        "level": "exploration",
        "deepen": 3,
        "rule": "seeded per-thread programs (4-34 ops, nesting depth 1-5, 1-4 threads) over Install/DropGuard(any order)/Forget/"
                "with_local_recorder/guard-escaping-a-closure/panic+catch_unwind/Emit, where Emit ranges over a compiled table of 18 "
                "macro shapes x 3 kinds + 4 describe shapes x 3 kinds; after every emission the logging doubles' logs are compared "
                "with a scope model (innermost live install, else global double, else nothing). case = program; distinct = program "
                "hash; non-trivial = contains a non-LIFO guard end, a forget, a panic unwinding through a scope, or runs beside other threads. "
                "ASan/Miri legs free each recorder the moment the model says its last borrow ended. late-global leg: a fresh process per shard in which threads emit (caching 'no recorder') before, while and after the global recorder is installed; every emission that begins after set_global_recorder returned must reach it.",
        "assumptions": ["scope model: the recorder in scope is the most recently installed one whose guard/closure is still alive",
                        "after mem::forget(guard) only the 'never dispatched after the borrow ended' clause is judged on that thread"],
        "legs": [
            {"name": "native", "flavour": "native", "shards": 4, "shards_thorough": 16},
            {"name": "native-global", "flavour": "native", "shards": 4, "shards_thorough": 16},
            {"name": "late-global", "flavour": "native", "shards": 8, "shards_thorough": 100},
            {"name": "asan", "flavour": "asan", "shards": 4, "shards_thorough": 16},
            {"name": "miri", "flavour": "miri", "shards": 8, "shards_thorough": 64, "timeout": 1200},
            {"name": "memcheck", "leg": "asan", "flavour": "memcheck", "shards": 2, "shards_thorough": 8, "scale": 0.2, "scale_thorough": 10, "timeout": 1800},
            {"name": "miri-global-race", "leg": "global-race", "flavour": "miri", "shards": 6, "shards_thorough": 32, "timeout": 900},
            {"name": "tsan-global-race", "leg": "global-race", "flavour": "tsan", "shards": 2, "shards_thorough": 8, "timeout": 900, "thorough_only": True},
        ],
    },
    "C04": {
        "level": "exploration",
        "deepen": 6,
        "rule": "counter runs (2-16 threads x clones of one handle over the standard atomic storage; increments-only with wrap-around "
                "starts, absolutes mixed with increments, absolutes with concurrent monotonicity readers), gauge runs with exactly "
                "representable inc/dec, short gauge histories (2-4 threads x 2-4 ops, unique set values) checked for linearizability "
                "(Wing-Gong), histogram record/record_many through logging HistogramFn doubles (default and overriding record_many) over "
                "every IntoF64 type, extreme values and no-op handles. case = one run/history; distinct = hash of its parameters and outcome. set() exactness is judged bit for bit over the full matrix previous value x new value of the special floats (signed zeroes, NaN payloads, infinities, denormal, extremes).",
        "assumptions": ["gauge arithmetic judged only on exactly representable values", "linearizability search budget 200k states per history; overrun = inconclusive"],
        "legs": [
            {"name": "native", "flavour": "native", "shards": 4, "shards_thorough": 16},
            {"name": "miri", "flavour": "miri", "shards": 6, "shards_thorough": 32, "miriflags": TB + " " + IGN, "timeout": 1200},
            {"name": "tsan", "flavour": "tsan", "shards": 2, "shards_thorough": 8, "scale": 0.05, "timeout": 1200, "thorough_only": True},
            {"name": "memcheck", "leg": "tsan", "flavour": "memcheck", "shards": 4, "shards_thorough": 8, "scale": 0.1, "timeout": 1800, "thorough_only": True},
        ],
    },
    "C02": {
        "level": "exploration",
        "deepen": 3,
        "rule": "cells leg: thousands of fresh RecorderOnceCell instances, each raced by 1-5 installers (1-3 attempts each, recorder "
                "doubles with payload canary + drop counter) and 1-6 loaders (2-21 lookups each, every hit dispatched into the double); "
                "a quarter of the trials each: winner held after the CAS / after the pointer write / a loader held after seeing "
                "INITIALIZED (gates), random holds, no holds. Oracle: write-once-register rules on the stamped history + canary + "
                "drop accounting. global leg: one process per trial of the real set_global_recorder raced with macro emissions. "
                "case = one trial; distinct = (hook interleaving signature, history) hash; non-trivial = >= 3 racing threads. A fifth of the install attempts run from a destructor while their thread unwinds from an unrelated (caught) panic.",
        "assumptions": ["'seen whole' is judged through a 6-word canary written by the double's constructor", "Relaxed/Acquire mistakes that x86 hides are only observable in the Miri leg"],
        "legs": [
            {"name": "cells", "flavour": "native", "shards": 4, "shards_thorough": 16},
            {"name": "global", "flavour": "native", "shards": 12, "shards_thorough": 200},
            {"name": "tsan", "flavour": "tsan", "shards": 2, "shards_thorough": 16, "scale": 0.05, "timeout": 1200},
            {"name": "miri", "leg": "miri", "flavour": "miri", "shards": 12, "shards_thorough": 96, "miriflags": IGN, "timeout": 1200},
            {"name": "memcheck", "leg": "tsan", "flavour": "memcheck", "shards": 4, "shards_thorough": 8, "scale": 0.05, "timeout": 1800, "thorough_only": True},
        ],
    },
    "C20": {
        "level": "exploration",
        "deepen": 3,
        "rule": "trials leg: fresh wrapper/handle pairs (verif_build) around a recorder double that stamps enter/exit, lingers a bounded "
                "number of steps inside each call and counts drops; 1-6 emitter threads (register/describe of all kinds) race one "
                "recoverer (into_inner, or drop(handle) in a third of the trials); a third of the trials gate an emitter right after its "
                "weak->strong upgrade until the recoverer has spun, a third use random holds. install leg: process-per-trial of the real "
                "install(), success path with macro emitters and already-installed failure path. case = trial; distinct = (hook "
                "interleaving signature, recovery stamps) hash. Emissions run under catch_unwind (a panic in the wrapper is a violation); one gated trial in a hundred holds an emission until into_inner has failed 64 times.",
        "assumptions": ["finalisation begins when into_inner returns or when Drop starts", "emissions overlapping the recovery may go either way",
                        "bounded progress: install() on the failure path with no emission in flight must return within the 20 s watchdog"],
        "legs": [
            {"name": "trials", "flavour": "native", "shards": 4, "shards_thorough": 16},
            {"name": "install", "flavour": "native", "shards": 8, "shards_thorough": 64, "timeout": 120},
            {"name": "tsan", "flavour": "tsan", "shards": 2, "shards_thorough": 8, "scale": 0.1, "timeout": 1200, "thorough_only": True},
            {"name": "miri", "leg": "miri", "flavour": "miri", "shards": 8, "shards_thorough": 64, "timeout": 1200},
            {"name": "memcheck", "leg": "tsan", "flavour": "memcheck", "shards": 4, "shards_thorough": 8, "scale": 0.05, "timeout": 1800, "thorough_only": True},
        ],
    },
    "C14": {
        "level": "exploration",
        "deepen": 4,
        "rule": "sweep leg: every operation sequence of length <= 3 over a 9-op alphabet (clone, into_owned, drop, compare/hash, move to "
                "another thread + clone + drop there, as_ref/Debug or KeyName/Key round trip, clone().into_owned(), Label/Key round trip, "
                "empty/default) for each of 30 constructor shapes (borrowed / owned with len,cap in {0,1,2,7,8,33}x{=,>} / shared) over "
                "Cow<[Elem]> (drop-counting elements) and Cow<str> (complete for that scope); random leg: 1-4 values, 1-25 ops. After "
                "every op: content vs model, Arc::strong_count vs model, live-element count vs model. asan/miri legs run the same sequences "
                "with LeakSanitizer / Miri's borrow tracker and leak checker. distinct = sequence hash. Borrowed values are prefixes of one shared buffer (same start address, different lengths). memcheck leg: random sequences under valgrind.",
        "assumptions": ["the harness keeps one clone of every Arc so counts are observable", "raw buffer leaks are only visible to LSan/Miri, not to the native leg"],
        "legs": [
            {"name": "sweep", "flavour": "native", "shards": 4, "shards_thorough": 8},
            {"name": "random", "flavour": "native", "shards": 4, "shards_thorough": 16},
            {"name": "zst", "flavour": "native", "shards": 1, "shards_thorough": 1},
            {"name": "miri-zst", "flavour": "miri", "shards": 1, "shards_thorough": 1, "timeout": 600},
            {"name": "asan", "flavour": "asan", "shards": 8, "shards_thorough": 16},
            {"name": "miri-sweep", "flavour": "miri", "shards": 12, "shards_thorough": 16, "timeout": 1500},
            {"name": "miri", "flavour": "miri", "shards": 4, "shards_thorough": 64, "timeout": 1500},
            {"name": "memcheck", "leg": "random", "flavour": "memcheck", "shards": 2, "shards_thorough": 8, "scale": 0.1, "scale_thorough": 10, "timeout": 1800},
        ],
    },
    "C06": {
        "level": "exploration",
        "deepen": 3,
        "rule": "seq legs: random histories (20-800 ops) of get_or_create / get / delete / retain / clear / visit / get_*_handles over "
                "1-300 keys (equal keys rebuilt through 10 construction paths with permuted labels; enough keys per shard to force map "
                "resizes) against a reference map, with storage doubles that carry a unique id, their kind and their key; run with 16, 4 "
                "and 1 registry shards (CPU affinity). race legs: 2-5 threads x 1-3 ops on 1-3 keys x 3 kinds, a third with a creator "
                "gated between dropping the read lock and taking the write lock, a third with random holds; each (kind,key) sub-history "
                "is checked for linearizability against a single-entry map (P-compositionality). case = history; distinct = history hash. race leg also parks an operation inside its get_or_create closure (holding the shard lock) while clear() / retain(false) runs: untouched keys must be gone afterwards. clone-race leg: 400k spin-synchronised rounds in which one thread looks a fresh lazily hashed static key up and another looks up a clone taken at that moment; both must get one storage.",
        "assumptions": ["keys use pairwise distinct label names (or two labels sharing a name), where equality is label-order-insensitive", "linearizability search budget 300k states"],
        "legs": [
            {"name": "seq", "flavour": "native", "shards": 3, "shards_thorough": 12},
            {"name": "seq-3cpu", "leg": "seq", "flavour": "native", "shards": 2, "shards_thorough": 6, "cpus": "0-2", "scale": 0.5},
            {"name": "seq-1cpu", "leg": "seq", "flavour": "native", "shards": 2, "shards_thorough": 6, "cpus": "0", "scale": 0.5},
            {"name": "race", "flavour": "native", "shards": 4, "shards_thorough": 16},
            {"name": "race-1cpu", "leg": "race", "flavour": "native", "shards": 1, "shards_thorough": 4, "cpus": "1", "scale": 0.2},
            {"name": "tsan", "flavour": "tsan", "shards": 2, "shards_thorough": 8, "scale": 0.2, "timeout": 1200, "thorough_only": True},
            {"name": "miri", "flavour": "miri", "shards": 6, "shards_thorough": 48, "miriflags": IGN, "timeout": 1500},
            {"name": "clone-race", "flavour": "native", "shards": 2, "shards_thorough": 8, "scale_thorough": 1.0},
            {"name": "memcheck", "leg": "tsan", "flavour": "memcheck", "shards": 4, "shards_thorough": 8, "scale": 0.1, "timeout": 1800, "thorough_only": True},
            {"name": "collide", "flavour": "native", "shards": 2, "shards_thorough": 8},
        ],
    },
    "C16": {
        "level": "exploration",
        "deepen": 8,
        "rule": "cycles leg: 1-5 push/drain cycles per reservoir over capacities {0,1,2,3,4,7,8,16,64,1024} and push counts "
                "{0, cap-1, cap, cap+1, random <= 3cap+4} with unique values (+NaN/inf/-0.0): exact checks of yield set, count, "
                "sample_rate, is_empty and emptiness of the next drain. uniform leg: 14 (capacity, stream length) shapes x 30k (quick) "
                "independent trials, per-position retention count vs Binomial(T, k/n), fixed |z| > 6.5 threshold. overlap leg: 1-4 "
                "pushers vs 2-7 drains with capacity >= everything pushed; a third of the trials gate a pusher between choosing its side "
                "and claiming a slot until a drain completed; every value must be yielded exactly once by a drain overlapping its push or "
                "the first drain after it. distinct = hash of cycle shapes / (hook interleaving signature, drain sizes). consumers leg: a second consumer calls consume() 1-3 times while the first is still inside its closure (no push running): every value pushed before is yielded exactly once.",
        "assumptions": ["uniformity is a statistical verdict: false-alarm probability < 1e-9 per run (Bonferroni over <= 150 positions)",
                        "the reservoir's own PRNG is OS-seeded and not controlled by VERIF_SEED"],
        "legs": [
            {"name": "cycles", "flavour": "native", "shards": 2, "shards_thorough": 8},
            {"name": "uniform", "flavour": "native", "shards": 7, "shards_thorough": 14},
            {"name": "overlap", "flavour": "native", "shards": 4, "shards_thorough": 16},
            {"name": "tsan", "flavour": "tsan", "shards": 2, "shards_thorough": 8, "scale": 0.2, "timeout": 1200, "thorough_only": True},
            {"name": "miri", "flavour": "miri", "shards": 6, "shards_thorough": 48, "timeout": 1500},
            {"name": "consumers", "flavour": "native", "shards": 2, "shards_thorough": 8},
            {"name": "memcheck", "leg": "miri", "flavour": "memcheck", "shards": 4, "shards_thorough": 8, "scale": 0.1, "timeout": 1800, "thorough_only": True},
        ],
    },
    "C15": {
        "level": "exploration",
        "deepen": 15,
        "rule": "buckets leg: ascending bound lists (1-8 bounds from a pool incl. +-inf, +-0, tiny/huge) x 0-39 samples (equal to bounds, "
                "bounds +- 1e-9, negatives, +-inf, NaN, or dyadic) recorded singly and in random batchings: count(b) == #{s <= b}, "
                "cumulative, never decreasing over time, +Inf == count, single == batched, sums (exact on dyadic samples). matchers leg: "
                "0-5 Full/Prefix/Suffix overrides + optional global buckets vs a reference precedence (judged when the winning class has one "
                "candidate). window leg: RollingSummary under a mock clock (1-5 buckets, 1 ns - 20 s), steps at bucket/window edges +-1 ns, "
                "outlier samples; snapshot count and quantiles vs certainly-in / possibly-in sample sets. distinct = case hash. exposed leg: the same precedence question asked of the rendered text — builder with 0-3 overrides (generic or aimed at the metric's own name, head or tail), optional global buckets, unit suffix on/off, described unit; the family (named with the unit suffix) must have TYPE histogram + _bucket{le} series with the chosen bounds and exact cumulative counts exactly when buckets apply, TYPE summary + quantile series otherwise.",
        "assumptions": ["a sample is certainly in the window if younger than window - bucket_duration and certainly expired if older than the window",
                        "quantile tolerance 1e-3 relative (sketch alpha 1e-4)"],
        "legs": [
            {"name": "buckets", "flavour": "native", "shards": 2, "shards_thorough": 8},
            {"name": "matchers", "flavour": "native", "shards": 2, "shards_thorough": 8},
            {"name": "exposed", "flavour": "native", "shards": 2, "shards_thorough": 8},
            {"name": "window", "flavour": "native", "shards": 4, "shards_thorough": 16},
        ],
    },
    "C12": {
        "level": "exploration",
        "deepen": 15,
        "rule": "registry leg: histories (5-64 steps) of update (incl. value-preserving gauge sets) / clock advance (0, timeout, timeout+-1, "
                "2*timeout+3, random) / observe over 1-3 keys x 3 kinds incl. the same key under several kinds, all 8 kind masks, timeouts "
                "1 ns - 1 s or none, against a per-(kind,key) idle state machine driven by a mock clock; after every observation the set of "
                "dropped metrics and the registry contents (values) are compared. exporter leg: the same through "
                "PrometheusBuilder::idle_timeout + verif_build_with_clock + render(), parsed by the strict parser. distinct = history hash; "
                "non-trivial = a timeout is set and the mask covers some kind.",
        "assumptions": ["an 'observation' is one pass of get_*_handles + should_store_*, as the exporters do"],
        "legs": [
            {"name": "registry", "flavour": "native", "shards": 4, "shards_thorough": 16},
            {"name": "exporter", "flavour": "native", "shards": 4, "shards_thorough": 16},
        ],
    },
    "C07": {
        "level": "exploration",
        "deepen": 5,
        "rule": "seq leg: per case a builder configuration (global / per-class bucket overrides, 0-2 global labels, unit suffix on/off, "
                "quantile sets) + 1-7 metrics honouring the distinctness precondition (sanitised names, label names, not le/quantile; "
                "key labels overriding global ones by raw name) + a history of 5-80 register/update (incl. absolute, inc/dec/set with "
                "NaN/inf/-0/denormals, 1-70 histogram samples) / describe (every Unit) / run_upkeep / render steps; every render is "
                "parsed by the strict parser and compared with the model (values, buckets, labels, HELP, type, no extra family, "
                "idempotence). concurrent legs: 2-7 recorder threads vs 1-2 render/upkeep threads, interval bounds per render + exact "
                "equality at quiescence; one leg adds random holds at the bucket hook points. distinct = case hash. absolute-race leg: two threads call absolute(2r) and absolute(2r-1) in spin-synchronised round r; the render after both returned must show 2r.",
        "assumptions": ["label values / descriptions containing backslashes are not required to round-trip (escaper treats them as possibly pre-escaped); judged only by C08",
                        "histogram sums judged on dyadic samples (exact)"],
        "legs": [
            {"name": "seq", "flavour": "native", "shards": 4, "shards_thorough": 16},
            {"name": "concurrent", "flavour": "native", "shards": 4, "shards_thorough": 16},
            {"name": "concurrent-hooks", "flavour": "native", "shards": 2, "shards_thorough": 8, "scale": 0.5},
            {"name": "directed", "flavour": "native", "shards": 2, "shards_thorough": 8},
            {"name": "asan", "flavour": "asan", "shards": 2, "shards_thorough": 8, "thorough_only": True},
            {"name": "absolute-race", "flavour": "native", "shards": 2, "shards_thorough": 8},
        ],
    },
    "C08": {
        "level": "exploration",
        "deepen": 25,
        "rule": "hostile leg: the C07 generator with names, label names, label values, descriptions, matcher patterns and global labels "
                "drawn from a hostile alphabet (backslash runs, quotes, newlines, CR, tabs, NUL/DEL, U+2028, '{},=#:', leading digits, "
                "reserved names, complete fake sample / TYPE lines), every Unit, unit suffix on/off, histogram and summary; every render "
                "must parse under the strict line grammar, satisfy the family rules (one TYPE per family before its samples, every "
                "sample = family name + suffix its type allows, le/quantile placement, no duplicate label names) and contain exactly the "
                "model's families and label-name sets (injection probe). distinct = case hash.",
        "assumptions": ["strict parser written from the exposition-format specification (Go ParseFloat number syntax); shares no code with the repository"],
        "legs": [
            {"name": "hostile", "flavour": "native", "shards": 4, "shards_thorough": 16},
        ],
    },
    "C09": {
        "level": "exploration",
        "deepen": 3,
        "rule": "one case = one PayloadWriter lifetime: limit (0, tiny, 8192, 20000, or message length -3..+40), framing mode, global "
                "prefix (none / empty / short / long), 0-3 global tags, key (name 0-300 bytes, 0-3 tags incl. bare tags) and 1-8 "
                "operations from {write_counter, write_gauge, write_histogram/distribution with 0-3000 values incl. NaN/1e300, drain}, "
                "followed by a final drain; every payload is decoded by an independent DogStatsD parser and checked: header == byte "
                "length, body <= limit, exactly one message, (prefix.)name, values in order at round-trip precision, tags global-then-own, "
                "timestamp/sample rate, emitted + dropped == input per write and per lifetime, counters' fit decision exact. "
                "distinct = hash of configuration and operation sequence.",
        "assumptions": ["names/tags from a delimiter-free alphabet (the format has no escaping; sanitisation is not claimed)",
                        "fit decisions are checked exactly for counters only (integer formatting is unambiguous without sharing the float formatter)"],
        "legs": [
            {"name": "native", "flavour": "native", "shards": 4, "shards_thorough": 16},
            {"name": "asan", "flavour": "asan", "shards": 2, "shards_thorough": 8, "thorough_only": True},
        ],
    },
    "C10": {
        "level": "exploration",
        "deepen": 6,
        "rule": "flush leg: a synchronous flush driver (the forwarder's loop body without socket and sleeps) around the real State/registry/"
                "writer; per trial 1-3 incrementing threads, one thread driving an absolute-only counter (increasing values), a gauge and a "
                "histogram (unique values), and a flusher doing 2-6 flushes + an optional idle prelude + a 3-flush quiescent tail; a "
                "quarter of the trials hold an updater at one of its 5 atomic-step hook points across a whole flush, a quarter hold the "
                "flusher at one of AtomicCounter::flush's 3 steps until an updater finished, a quarter use random holds. Oracle on the "
                "decoded flush outputs: conservation (sum of deltas == increments; absolute: last - first), no delta beyond what was "
                "invoked, zero-exactly-once, gauge recency interval, histogram values exactly once and never late, timestamp presence "
                "per documented mode, types. socket leg: built exporter (20 ms flush) against harness unix-stream / unixgram / UDP "
                "sockets for >= 8 cycles. distinct = (hook interleaving signature, delta sequence) hash. A third of the flush-leg trials use a 56-byte payload limit so that one flush's histogram values span several payloads (each must be the configured message type).",
        "assumptions": ["UDP loopback may drop datagrams: on UDP only 'never more than recorded' and framing are judged",
                        "socket leg completion is logical (received sum reaches the recorded total) under a 15 s watchdog whose expiry is inconclusive"],
        "legs": [
            {"name": "flush", "flavour": "native", "shards": 4, "shards_thorough": 16},
            {"name": "socket", "flavour": "native", "shards": 8, "shards_thorough": 64, "timeout": 120},
            {"name": "tsan", "flavour": "tsan", "shards": 2, "shards_thorough": 8, "timeout": 1200, "thorough_only": True},
            {"name": "miri", "flavour": "miri", "shards": 6, "shards_thorough": 48, "miriflags": TB + " " + IGN, "timeout": 1500},
            {"name": "memcheck", "leg": "tsan", "flavour": "memcheck", "shards": 4, "shards_thorough": 8, "scale": 0.3, "timeout": 1800, "thorough_only": True},
        ],
    },
    "C19": {
        "level": "exploration",
        "deepen": 3,
        "rule": "seq leg: histories (5-55 steps) of describe (3 kinds, unit present/absent) / register+update (equal keys rebuilt through "
                "10 construction paths with permuted labels, same name across kinds, some through with_local_recorder + macros) / snapshot "
                "against a reference (first-registration order, described-only excluded, current counter/gauge values incl. NaN, histogram "
                "values since the previous snapshot, latest description, unit kept when a later description has none), beside a second "
                "unrelated recorder. concurrent legs: 2-5 recorder threads vs a snapshot thread; every histogram value in exactly one "
                "snapshot and never in a later one than the first snapshot begun after it was recorded; counter interval rule; one leg "
                "with random holds at the bucket hook points. distinct = history hash. Keys include two labels sharing a name listed in either order. seq leg also runs programs of set_default_local_recorder installs over three debugging recorders with guards dropped in any order: each snapshot lists exactly what was emitted while that recorder was the innermost live installation.",
        "assumptions": ["histogram values compared as multisets per snapshot"],
        "legs": [
            {"name": "seq", "flavour": "native", "shards": 4, "shards_thorough": 16},
            {"name": "concurrent", "flavour": "native", "shards": 4, "shards_thorough": 16},
            {"name": "concurrent-hooks", "flavour": "native", "shards": 2, "shards_thorough": 8, "scale": 0.5},
            {"name": "miri", "flavour": "miri", "shards": 4, "shards_thorough": 32, "miriflags": TB + " " + IGN, "timeout": 1500},
            {"name": "tsan", "leg": "concurrent", "flavour": "tsan", "shards": 2, "shards_thorough": 8, "scale": 0.05, "timeout": 1200, "thorough_only": True},
            {"name": "memcheck", "leg": "concurrent", "flavour": "memcheck", "shards": 4, "shards_thorough": 8, "scale": 0.03, "timeout": 1800, "thorough_only": True},
        ],
    },
    "C17": {
        "level": "exploration",
        "deepen": 4,
        "rule": "seeded scripts (4-19 top-level ops, nesting <= 3, 1-3 threads under one subscriber) over 7 compiled span shapes (shared "
                "field names across shapes, Empty fields recorded later, str/bool/i64/u64/f64/Debug/Display values), contextual / explicit / "
                "root parents, record() of declared and undeclared fields, and emissions of 3 kinds with 0-2 own labels overlapping span "
                "fields; filters: include-all, allow-lists, a custom filter. After each emission the key received by the inner logging "
                "recorder is compared with a reference (own labels + admitted fields of the current span as of its creation chain, metric > "
                "inner > outer, later record replaces, no duplicate names, unchanged without span). distinct = script+filter hash; "
                "non-trivial = a span inherited fields from a parent. shared-span leg: one span shared by two threads that record different fields of it in spin-synchronised rounds (12k-60k per scenario); after each round a metric emitted in the span must carry this round's value of every field.",
        "assumptions": ["re-entering a span that is already on the thread's span stack is not generated (tracing keeps the previous current span there)"],
        "legs": [
            {"name": "native", "flavour": "native", "shards": 4, "shards_thorough": 16},
            {"name": "asan", "flavour": "asan", "shards": 2, "shards_thorough": 8, "thorough_only": True},
            {"name": "shared-span", "flavour": "native", "shards": 2, "shards_thorough": 8},
        ],
    },
    "C18": {
        "level": "exploration",
        "deepen": 8,
        "rule": "per exporter (fresh loopback port, real tokio/hyper listener): an allowlist of 0-5 entries from plain IPs, /32, /30, /25, /24, "
                "/16, /8, 0.0.0.0/0, foreign and IPv6 entries, then 20-60 connections from harness sockets bound to 14 source addresses "
                "in 127.0.0.0/8 (inside / outside / first and last address of blocks): well-formed GETs on 6 paths incl. /health, bursts "
                "of 2-15 concurrent scrapers while a counter changes, garbage bytes, half-open requests, SO_LINGER-0 resets; every "
                "response is parsed (status line, headers, content-length/chunked body) and judged against an independent CIDR reference, "
                "the strict exposition parser and value bounds [before request, after response]; a final well-formed client must be "
                "served. distinct = (allowlist, action sequence) hash. v6 leg: exporters on [::1] and on [::] (dual-stack) with allowlists mixing IPv6 and IPv4 entries; the IPv6 loopback peer and IPv4 peers reaching the dual-stack listener (reported as ::ffff:a.b.c.d) are judged against an independent CIDR reference (IPv4 entries never contain an IPv6 peer; an IPv4 client is inside an IPv4 entry that contains its address).",
        "assumptions": ["server readiness is established by a successful probe connection", "a port collision at exporter start is inconclusive for that exporter"],
        "legs": [
            {"name": "native", "flavour": "native", "shards": 4, "shards_thorough": 16, "timeout": 900},
            {"name": "v6", "flavour": "native", "shards": 2, "shards_thorough": 8, "timeout": 900},
            {"name": "emfile", "flavour": "native", "shards": 1, "shards_thorough": 2, "timeout": 900},
        ],
    },
    "C11": {
        "level": "exploration",
        "deepen": 2,
        "rule": "per scenario: a fresh exporter on a loopback port with buffer_size in {None, 1, 4, 64, 1024}; 3 metadata entries described "
                "first (logical sync: a throw-away client that received all of them); 1-4 clients with scripted behaviours (read; stop "
                "reading for two rounds then resume; close; reset with SO_LINGER 0; connect late) and 1-3 emitter threads tagging every "
                "metric (emitter, seq) across counter/gauge/histogram operations; 4-9 rounds of bursts kept within half the buffer, the "
                "next round only after every open reading client received the previous one (ack-based pacing). Every captured byte stream "
                "is decoded by a hand-written varint/protobuf decoder of event.proto: whole frames only, metadata first and complete, "
                "content intact, per-emitter order, no duplicates, no gaps for reading clients; after every round the exporter's "
                "(client_count, should_send) is compared with the open accepted harness clients. distinct = (scenario, bytes) hash. vanish leg: buffer_size(None), 3-5 streaming readers, one emitter sending 2-32 KiB metrics every 50-800 us, and a transient client that 10-40 times connects with a 4 KiB receive buffer, stops reading for 100-300 ms (the exporter accumulates a backlog for it) and is reset; every reader's (emitter, seq) stream must stay gap-free.",
        "assumptions": ["a burst not acknowledged within the 8 s watchdog without logical evidence of loss (gap / wrong accounting) is inconclusive",
                        "descriptions are paced (4 ms apart) for buffers <= 4 because they share the bounded channel with metrics"],
        "legs": [
            {"name": "native", "flavour": "native", "shards": 4, "shards_thorough": 16, "timeout": 1800},
            {"name": "stall", "flavour": "native", "shards": 2, "shards_thorough": 8, "timeout": 1800},
            {"name": "wake", "flavour": "native", "shards": 2, "shards_thorough": 8, "timeout": 1800},
            {"name": "vanish", "flavour": "native", "shards": 2, "shards_thorough": 4, "timeout": 1800},
            {"name": "events", "flavour": "native", "shards": 2, "shards_thorough": 4, "timeout": 1800},
        ],
    },
}
