"""Per-property leg plans for ./check.  A leg = one workload under one build flavour, run as
`shards` processes (quick) / `shards_thorough` processes (thorough); the harness divides its
budget across shards."""

TB = "-Zmiri-tree-borrows"
IGN = "-Zmiri-ignore-leaks"

LEVEL_RULES = {}

PLAN = {
    "C03": {
        "level": "exploration",
        "rule": "pools of ~36 keys from tiny alphabets (6 names, 11 label names, 4 values, 0-10 labels, repeated names, "
                "10 construction paths); every ordered pair + sampled triples checked against the Eq/Ord/Hash laws and the "
                "canonical-form model; a case = unordered pair of (descriptor, path); non-trivial = same name and same label "
                "count; distinct = distinct pair hashes. Race legs: a case = (key, interleaving signature of between-stores/done events).",
        "assumptions": ["std Hash streams are compared through a recording hasher (call boundaries included)",
                        "weak-memory reorderings are only observable in the Miri leg"],
        "legs": [
            {"name": "native", "flavour": "native", "shards": 4, "shards_thorough": 16},
            {"name": "race", "flavour": "native", "shards": 4, "shards_thorough": 16},
            {"name": "miri-race", "flavour": "miri", "shards": 12, "shards_thorough": 64, "miriflags": IGN, "timeout": 900},
            {"name": "miri-seq", "flavour": "miri", "shards": 2, "shards_thorough": 8, "miriflags": IGN, "timeout": 900},
        ],
    },
}
