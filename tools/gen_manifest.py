#!/usr/bin/env python3
"""Regenerate MANIFEST.json from tools/plan.py + tools/claims.py (kept valid at all times)."""
import json, os, sys, subprocess
ROOT = os.path.dirname(os.path.dirname(os.path.abspath(__file__)))
sys.path.insert(0, os.path.join(ROOT, "tools"))
from plan import PLAN
from claims import CLAIMS, NOT_APPLICABLE_REASON

props = [json.loads(l) for l in open(os.path.join(ROOT, "properties.jsonl"))]
commits = subprocess.run(["git", "-C", "/repo", "log", "--format=%H %s"], capture_output=True, text=True).stdout.splitlines()
hook_commits = [c.split()[0] for c in commits if " verif hooks" in c]
checks, na = [], []
for p in props:
    pid = p["id"]
    if pid in PLAN and pid in CLAIMS:
        c = CLAIMS[pid]
        checks.append({
            "property_id": pid,
            "quick_cmd": f"./check {pid} quick",
            "thorough_cmd": f"./check {pid} thorough",
            "evidence_file": f"/verif/evidence/{pid}.json",
            "replay_cmd_template": f"./check {pid} --replay {{path}}",
            "engine": "vh",
            "level_claimed": {"category": "exploration", "text": c["text"], "design_ref": c.get("design_ref", "DESIGN.md §3 " + pid)},
            "level_note": c["note"],
            "technique": c["technique"],
        })
    else:
        na.append({"property_id": pid, "reason": NOT_APPLICABLE_REASON.get(pid, "check not built yet in this round; the property is in scope for runtime monitoring (see DESIGN.md §3) and will be claimed once its monitor exists")})
m = {
    "version": 1,
    "setup_cmd": "./setup.sh",
    "hooks": {
        "guard": "--cfg metrics_verif",
        "enable": "RUSTFLAGS='--cfg metrics_verif' (set by ./check for every harness flavour; the harness path-depends on /repo/<crate>)",
        "baseline_off_cmd": "cd /repo && cargo test --workspace --no-fail-fast --offline",
        "source_commits": hook_commits,
        "add_only": True,
    },
    "engines": [{"name": "vh", "path": "/verif/harness/vh", "serves_properties": [c["property_id"] for c in checks],
                 "kind_free_text": "Rust harness: seeded workload generators, hook runtime (event log, gates, random holds), logging doubles, reference models and offline history checkers; built native / ASan / TSan / Miri by ./check, native binary also run under valgrind memcheck"}],
    "checks": checks,
    "not_applicable": na,
    "notes": "All checks are runtime monitoring: real code driven by seeded hostile workloads with oracles over recorded histories; sanitizer / Miri / valgrind-memcheck legs re-run the same workloads. Verdicts are 'held on what was observed'. See DESIGN.md.",
}
json.dump(m, open(os.path.join(ROOT, "MANIFEST.json"), "w"), indent=1)
print(f"MANIFEST.json: {len(checks)} checks, {len(na)} not_applicable")
