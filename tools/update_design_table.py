#!/usr/bin/env python3
"""Replace the seeded-change table in DESIGN.md (between the SEEDED-TABLE markers) with the output of seeded_table.py."""
import subprocess, re
t = subprocess.run(["python3", "/verif/tools/seeded_table.py"], capture_output=True, text=True, check=True).stdout
p = "/verif/DESIGN.md"; s = open(p).read()
a = s.index("<!-- SEEDED-TABLE-BEGIN -->") + len("<!-- SEEDED-TABLE-BEGIN -->"); b = s.index("<!-- SEEDED-TABLE-END -->")
s = s[:a] + "\n" + t + s[b:]
open(p, "w").write(s)
print("table rows:", t.count("\n") - 2)
