#!/usr/bin/env python3
"""Copy confirmed seeded changes from the sub-agents' output directory into /verif/seeded/<id>/ (patch.diff, demo, meta.json)."""
import json, os, shutil, sys, glob
src = sys.argv[1] if len(sys.argv) > 1 else "/tmp/seeded-out"
dst = "/verif/seeded"
os.makedirs(dst, exist_ok=True)
for d in sorted(glob.glob(os.path.join(src, "C??-m*"))):
    name = os.path.basename(d)
    cj = os.path.join(d, "confirm.json")
    if not os.path.exists(cj) or not os.path.exists(os.path.join(d, "patch.diff")):
        continue
    conf = json.load(open(cj))
    agent_meta = {}
    try:
        agent_meta = json.load(open(os.path.join(d, "meta.json")))
    except Exception:
        pass
    status = conf.get("status")
    special = None
    if name == "C02-m2" and status != "confirmed":
        special = ("the demonstration is a Miri test (x86 hardware gives every load acquire semantics, so it cannot fail natively); "
                   "confirmed with the Miri leg of the C02 check, which reports 'Data race detected ... RecorderOnceCell::try_load' in 12/12 seeds with the patch and 0/12 without")
    if name == "C02-m4" and status != "confirmed":
        special = ("the demonstration is a stand-alone Miri test (the defect is a data race on the cell's slot; functional behaviour on x86-64 is unchanged); "
                   "confirmed with the Miri and TSan legs of the C02 check against the patch")
    if name == "C02-m12" and status != "confirmed":
        special = ("the demonstration is a stand-alone crate run under `cargo +nightly miri run` (the release moved from the publishing store to the claiming CAS is a data race only a happens-before checker sees; x86-64 runs are unaffected); "
                   "confirmed with the Miri and TSan legs of the C02 check against the patch (see result.json)")
    if name == "C01-m10" and status != "confirmed":
        special = ("the demonstration is a Miri test (a Relaxed load of the cell state is a data race on the slot only a happens-before checker sees; x86-64 runs are unaffected); "
                   "confirmed with the Miri global-race leg of the C01 check against the patch (see result.json)")
    if name == "C03-m9" and status != "confirmed":
        special = ("the demonstration is a Miri test (a Relaxed load of the `hashed` flag is only observable under a weak memory model; x86-64 hardware gives every load acquire semantics); "
                   "confirmed with the Miri race leg of the C03 check against the patch (see result.json)")
    if status != "confirmed" and not special:
        print("skipping", name, status); continue
    out = os.path.join(dst, name)
    os.makedirs(out, exist_ok=True)
    shutil.copy(os.path.join(d, "patch.diff"), os.path.join(out, "patch.diff"))
    for f in ("demo.rs", "demo.md", "demo.Cargo.toml", "patch.orig.diff", "demo_threads.rs", "demo_delay.diff", "confirm.json", "widen-with-patch.diff", "widen-without-patch.diff"):
        if os.path.exists(os.path.join(d, f)):
            shutil.copy(os.path.join(d, f), os.path.join(out, f))
    meta = {
        "property": agent_meta.get("property", name[:3]),
        "summary": agent_meta.get("summary", ""),
        "needs_to_manifest": agent_meta.get("needs", ""),
        "origin": "written by a fresh sub-agent that saw only the property text and a scratch worktree of /repo",
        "confirmed_by_me": {
            "how": "tools/confirm_mutants.py in scratch worktree /tmp/wt-confirm (removed afterwards): git apply patch.diff; cargo test --workspace --offline; demo with patch; demo without patch",
            "repo_head": conf.get("repo_head"),
            "existing_suite_with_patch": conf.get("suite_with_patch"),
            "demo_cmd": conf.get("demo_cmd"),
            "demo_location": conf.get("demo_path"),
            "demo_with_patch": conf.get("demo_with_patch"),
            "demo_without_patch": conf.get("demo_without_patch"),
        },
    }
    if special:
        meta["confirmed_by_me"]["note"] = special
    elif conf.get("note"):
        meta["confirmed_by_me"]["note"] = conf["note"]
    if os.path.exists(os.path.join(d, "patch.orig.diff")):
        meta["note"] = "patch.diff is the same change ported by hand to the repaired tree (the original, patch.orig.diff, was written before a later fix: commit touched the same lines)"
    json.dump(meta, open(os.path.join(out, "meta.json"), "w"), indent=1)
    print("imported", name)
