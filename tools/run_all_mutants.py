#!/usr/bin/env python3
"""Apply every seeded change under /verif/seeded to /repo in turn, run the property's check, revert; record which
signatures/legs fired in seeded/<id>/result.json and print a markdown table. Usage: run_all_mutants.py [tier] [ids...]"""
import json, os, subprocess, sys, glob, re
ROOT = "/verif"
tier = sys.argv[1] if len(sys.argv) > 1 and sys.argv[1] in ("quick", "thorough") else "quick"
only = [a for a in sys.argv[1:] if a not in ("quick", "thorough")]
rows = []
for d in sorted(glob.glob(os.path.join(ROOT, "seeded", "*"))):
    name = os.path.basename(d)
    if only and name not in only:
        continue
    meta = json.load(open(os.path.join(d, "meta.json")))
    pid = meta["property"]
    if subprocess.run(["git", "-C", "/repo", "diff", "--quiet"]).returncode != 0:
        print("repo dirty, aborting"); sys.exit(9)
    ap = subprocess.run(["git", "-C", "/repo", "apply", os.path.join(d, "patch.diff")], capture_output=True, text=True)
    if ap.returncode != 0:
        rows.append((name, pid, "patch does not apply", "", "")); continue
    try:
        p = subprocess.run(["./check", pid, tier], cwd=ROOT, capture_output=True, text=True, timeout=3600)
        rc = p.returncode
        sigs = re.findall(r"violation signature: (\S+) \(x(\d+)\) leg=(\S+)", p.stderr)
    finally:
        subprocess.run(["git", "-C", "/repo", "checkout", "--", "."])
    res = {"mutant": name, "property": pid, "tier": tier, "exit_code": rc, "caught": rc == 1,
           "signatures": [{"signature": s, "occurrences": int(n), "leg": l} for s, n, l in sigs]}
    json.dump(res, open(os.path.join(d, "result.json"), "w"), indent=1)
    rows.append((name, pid, "caught" if rc == 1 else f"MISSED (rc={rc})", ", ".join(sorted({l for _, _, l in sigs})), "; ".join(f"{s}" for s, _, _ in sigs[:4])))
    print(rows[-1], flush=True)
print("\n| seeded change | property | quick check | legs that fired | signatures |\n|---|---|---|---|---|")
for r in rows:
    print("| " + " | ".join(r) + " |")
